#!/bin/sh
# Re-run every stored seed against the check(s) recorded as catching it (quick tier).
# usage: ./recheck_all.sh [seed-id ...]   (default: all)   -> out/recheck_all.log
#   FIRST_ONLY=1: only the first check recorded as catching the seed
cd /verif || exit 2
mkdir -p out
seeds="$@"
[ -z "$seeds" ] && seeds=$(ls seeded)
for s in $seeds; do
  checks=$(python3 -c "
import json,os
m=json.load(open('/verif/seeded/$s/meta.json'))
c=[k for k,v in m.get('checks',{}).items() if v.get('exit')==1] or ['$s'[:3]]
if os.environ.get('FIRST_ONLY'): c=c[:1]
print(' '.join(c))")
  python3 seedtest.py --recheck $s $checks 2>&1 | tail -1
done | tee out/recheck_all.log
git -C /repo status --porcelain
