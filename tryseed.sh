#!/bin/sh
# usage: tryseed.sh <worktree> [check ids...]   — runs quick checks against a seeded worktree without touching /repo
WT=$1; shift
CHECKS=${*:-"C01 C02 C03 C04 C05 C06 C07 C08 C09 C10 C11 C12 C13 C14 C15 C16 C17 C18 C19 C20"}
TAG=$(basename $WT)
mkdir -p /verif/out/try/$TAG
for c in $CHECKS; do echo $c; done | xargs -P ${PAR:-5} -I{} sh -c "VERIF_REPO=$WT VERIF_EVIDENCE_DIR=/verif/out/seed-evidence/$TAG /verif/check {} quick > /verif/out/try/$TAG/{}.log 2>&1; echo {} exit=\$? \$(grep -c '^VIOLATION' /verif/out/try/$TAG/{}.log) viol \$(grep -c '^INCONCLUSIVE' /verif/out/try/$TAG/{}.log) inc"
