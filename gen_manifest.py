#!/usr/bin/env python3
# Regenerates MANIFEST.json from the table below (kept in one place so that it stays valid).
import json
conv = 'One inductive step of the REAL Task.Converge/latest/load/insert/update/Delete (and real dig.Integration.Delete) executed symbolically from an arbitrary committed pre-state satisfying the invariant, against a Go model of Postgres cut at pgxpool.Pool.Begin whose statement semantics are parsed from the SQL text, and a hash-linked chain stub; '
checks = {
 "C01": dict(
   text=conv+"z3 decides: no panic, each block p+1..p+d handed to Insert exactly once and in order, one new cursor row (p+d, hash(p+d)), fetch partitions contiguous/non-empty/no wrap, rows cover exactly the position, for batch x concurrency pairs incl. batch < concurrency and non-divisible.",
   note="Inductive step => histories of any length; bounded in k (cursor rows materialised), batch and concurrency (listed in evidence). Postgres semantics of six statement shapes are my reading (no Postgres binary in the sandbox). Row content per block is C09-C14.",
   technique="go/ssa symbolic execution of one inductive step -> SMT (z3), Postgres and source as Go models; native replay with the same cut",
   design="5/C01"),
 "C02": dict(
   text=conv+"every I/O point (begin, each statement, COPY, commit, each RPC) may fail under a solver Boolean (single faults exhaustively as a symbolic choice; any subset in the multi-fault runs); z3 decides that no committed state ever has rows beyond the position or a position without rows, that every transaction is closed on every exit, and that a fault-free retry reaches exactly the state of a fault-free step from the same pre-state, on growth and reorg histories.",
   note="Process death at a point is modelled as an error at that point plus loss of in-memory state (retry from the committed state). Postgres atomicity itself is trusted. Bounds in evidence.",
   technique="go/ssa symbolic execution with symbolic fault schedule -> SMT (z3); native replay",
   design="5/C02"),
 "C03": dict(
   text=conv+"the top cursor rows carry orphaned hashes over arbitrary (non-consecutive) cursor numbers; up to k+1 steps on the frozen canonical chain; z3 decides the invariant at every commit, canonical hashes of all remaining positions, untouched canonical prefix and rows below the fork.",
   note="Chain frozen while converging; forks below the retained cursor history are outside (as in the property). Reorgs between the RPC calls of one fetch and re-requests through the shared caching client are decided by ZZ_C03_Switch (a two-version honest node: every successful Get returns one version of the block; retries converge once the cached segment expired) and by C07's segment linkage; a reorg between partitions of one load() is outside.",
   technique="go/ssa symbolic execution, bounded multi-step from an inductive pre-state -> SMT (z3); native replay",
   design="5/C03"),
 "C04": dict(
   text=conv+"three foreign pairs (shared source, shared integration name and table, shared table) with arbitrary cursor rows are present during reorg unwinding and inserts; z3 decides they are unchanged (frame condition from the SQL text of every statement, so a dropped src_name/ig_name conjunct is caught). Row stamping is decided on the real row builder.",
   note="All-interleavings follows from the per-statement frame condition (statements touching only their own pair commute); Postgres row isolation is trusted. Shared-cache clause: C08. The periodic pruning of recorded positions (PruneTask) is decided against a model that reads the statement's outer tuple, partition columns, order direction and rn bound from its text (ZZ_C04_Prune).",
   technique="go/ssa symbolic execution -> SMT (z3) frame condition; native replay",
   design="5/C04"),
 "C05": dict(
   text=conv+"1-2 referenced integrations with 0..2 cursor rows (0 = not started) plus a same-named integration on another source; z3 decides the dependent writes nothing until every reference has progress and never advances beyond the smallest newest position.",
   note="The shape of the CTE of latestDependency is hand-modelled, its ORDER BY directions are read from the SQL text. Relative speeds: the referenced integration moves between the passes of one step (ZZ_C05_Moving). Dependencies completeness is decided at the config level (ZZ_C05_Refs); that reference lookups run on the inserting transaction is not covered.",
   technique="go/ssa symbolic execution -> SMT (z3); native replay",
   design="5/C05"),
 "C06": dict(
   text=conv+"start, stop, head and the prior position are free 64-bit values; z3 decides never-before-start, never-after-stop (rows and positions), ErrDone and no write once stop is recorded, resume at position+1 / start / head, ErrAhead without writes, and no panic for any relation of start, stop and head.",
   note="Bounds: batch sizes listed in evidence; numbers < 2^62. A block above the head has no hash (null -> error after fix c4a5d7e).",
   technique="go/ssa symbolic execution -> SMT (z3); native replay",
   design="5/C06"),
 "C07": dict(
   text="Bounded symbolic model checking of the real client functions (Client.Get, blocks, headers, validate, receipts, logs, traces, Latest, Hash, eth.Block.Tx, eth.Logs.Add, eth.Bytes.Write) against an adversarial node cut at Client.do: every decoded number/hash/index/error code is a solver variable, structural corruptions are case-split under a budget; on acceptance z3 decides consecutive numbers, parent linkage, and that every reported log/receipt/trace is attached to the block and transaction it names; no panic on any answer.",
   note="The JSON decoder is replaced by the R1 contract (harness/jrpc2/stub.go, same cut natively for replay). limit <= 3 (quick) / 4 (thorough); HTTP status, transport failure and undecodable body are decided on the real do() with its library calls cut (ZZ_C07_Do); what net/http and goccy themselves do with a given byte stream is outside.",
   technique="go/ssa symbolic execution -> SMT (z3) with a nondeterministic node stub; native replay with the same cut",
   design="5/C07"),
 "C08": dict(
   text="Bounded symbolic model checking of the real cache code (cache.get, pruneMaxRead, pruneSegments, NumHash.get/update/error, Client.Latest, Client.Get cached path, logs/receipts/traces attaching to shared cached blocks, eth.Logs.Add) against an honest unchanging node: every order of n requests over two ranges and two callers with different log filters, node failures as solver Booleans; z3/engine decide same data as uncached, matching log present exactly once, no log twice, no cached error, reuse <= maxreads per fetch, at most five segments; head cache: announced-pair, floor, reuse bound.",
   note="Sequential request sequences: enumerated orders, n <= 3 (quick) / 5 (thorough). Concurrent mixes: 2 (thorough 3) callers of one range and two Latest callers plus the poller run as engine threads under a bounded scheduler (preemption only at synchronisation operations, budget <= 1 quick / 2 thorough); callers of different ranges concurrently and larger mixes are outside. Scheduled counterexamples are replayed in the engine's concrete mode with the recorded schedule (a native run cannot be forced into a schedule).",
   technique="go/ssa symbolic execution over enumerated request orders and bounded schedules -> SMT (z3); native replay with the same cut (sequential), engine-concrete replay (scheduled)",
   design="5/C08"),
 "C09": dict(
   text="Bounded symbolic model checking of the real ABI type parser (Input.ABIType, parseArray, hasStatic, sizeof) with symbolic array-length digits, and of the real decoder (Result.Scan, scan, GetRow) against a reference ABI encoder and row rule over 26 type trees with all values symbolic; each decoder instance is used four times (other lengths, then empty byte strings, then the first lengths again).",
   note="Type trees and lengths are case-split (catalogue in harness/dig/common.go); values are solver-quantified. Reference encoder/row rule are mine (harness/dig/c09.go), compiled natively for replay. Overlapping/out-of-order tails and T[0] are outside.",
   technique="go/ssa symbolic execution -> SMT (z3), differential against a reference encoder; native replay",
   design="5/C09"),
 "C10": dict(
   text="Bounded symbolic model checking of Result.Scan/scan/bint.Decode on arbitrary log data: for each of 26 type trees and each data length up to the bound, all data bytes (and the bytes of stale capacity) are symbolic; z3 decides no-panic, values-inside-input, row-count bound and a 2-safety check that the outcome does not depend on bytes beyond len(data). Loop unwinding len/32+3 is checked, not assumed.",
   note="Lengths/capacities case-split (quick <= 96 bytes, thorough <= 192), contents solver-quantified, so boundary words such as 2^63, 2^64-32, len-31 are inside the space. Longer inputs are outside the claim.",
   technique="go/ssa symbolic execution -> SMT (z3) with unwinding checks; native replay",
   design="5/C10"),
 "C11": dict(
   text="Bounded symbolic model checking of the real row builder (dig.New, setCols, processLog, logWithCtx.get, dbtype, Event.Selected) for all 64 indexed/selected layouts of a 3-input event: topics, data and block/tx/log fields are symbolic; every emitted cell is compared with the reference value (indexed inputs by their ordinal among ALL indexed inputs, data inputs by ABI position, typed per ABI type) and the ig_name/src_name stamp is checked.",
   note="Layouts and leaf types case-split; values solver-quantified; array inputs of six static leaf types; Insert over several items incl. logs of other events in between. The unsigned decimal conversion (uint256.Dec) is uninterpreted, the repo's signed rendering (negInt.Value) is decided for every 256-bit value; pgx/Postgres COPY are outside; JSON->client mapping is C07/C14.",
   technique="go/ssa symbolic execution -> SMT (z3); native replay",
   design="5/C11"),
 "C12": dict(
   text="Bounded symbolic model checking of the real Filter.Accept (bytes, string, uint64, uint256 kinds; six operators), filterResults.add/accept as used by processLog, and Integration.Filter/glf address+topic pushdown: field values (and byte-string arguments) are symbolic; z3 decides result == reference predicate, row emitted <=> and/or fold, and accepted => not excluded by the address/topic lists sent to eth_getLogs.",
   note="Integer filter arguments are boundary constants; fold/pushdown arguments are constants with symbolic log contents. filter_ref lookups are not covered here. eth_getLogs filter semantics assumed as documented.",
   technique="go/ssa symbolic execution -> SMT (z3); native replay",
   design="5/C12"),
 "C13": dict(
   text="Bounded symbolic model checking of the decode gate in processLog (topic count and first topic vs stored signature hash, all topic bytes symbolic, topic counts 0..5) and of Event.Signature/Input.Signature against a reference renderer with a symbolic event name over 7 nested tuple/array shapes; two events of one name with different inputs keep their own hashes.",
   note="Keccak-256 is trusted (computed natively by the engine on concrete input; one known-answer vector as smoke test). Layouts/shapes case-split.",
   technique="go/ssa symbolic execution -> SMT (z3); native replay",
   design="5/C13"),
 "C14": dict(
   text="Bounded symbolic model checking of the real planning pipeline end to end (config.AddRequiredFields -> dig.New -> Integration.Filter -> glf.New -> jrpc2.Client.Get and fetchers -> dig.Integration.Insert -> COPY rows): for all pairs of the 28 field names (with and without an event) and class-wise triples, the honest node supplies exactly the members each JSON-RPC method returns as non-zero symbolic values; every stored cell must equal the node's value.",
   note="The per-method field table (harness/jrpc2/node.go) is transcribed from the Ethereum JSON-RPC spec and is the oracle. One block/tx/log/trace per run. Domain restrictions stated in evidence (log fields need an event; trace idx accompanies a trace field).",
   technique="go/ssa symbolic execution of the real pipeline over enumerated field sets -> SMT (z3); native replay through both cuts",
   design="5/C14"),
 "C16": dict(
   text="Bounded symbolic/concrete execution by the SSA engine of the real schema functions (config.ValidateFix, AddRequiredFields, AddUniqueIndex, ValidateColRefs, config.DDL, union, config.Migrate, wpg.Table.DDL/Migrate/Diff, dig.New/setCols) over all ordered pairs of four integration shapes, shared or separate tables, column orders, declaration orders and existing-table prefixes: every written column is in the created/migrated table, identity columns are added, the unique key the database ends up with distinguishes the integration's rows and only contains written columns, missing columns are rejected.",
   note="The space here is configuration shape, enumerated by the engine's case splits (solver-free for most paths); the deciding step is exhaustive enumeration of the stated finite shape space by symbolic execution of the real code. Two listed known findings (shared-table unique key).",
   technique="go/ssa execution of the real schema code over an enumerated shape space (engine case splits), SMT only for path feasibility; native replay",
   design="5/C16"),
 "C17": dict(
   text="Bounded symbolic model checking of the real codec functions (eth.decode, Uint64/Byte/Bytes.UnmarshalJSON, Bytes.Write/MarshalJSON, DecodeHex/EncodeHex, encoding/hex from its own SSA, bint.Encode/Decode/size): every token of each length up to the bound is one symbolic byte array, z3 decides exactness, error and no-panic assertions for all contents; counterexamples are replayed natively with go test before being reported.",
   note="Bounds: token lengths listed in evidence.bounds (quick <=22/16 bytes, thorough <=40/70); lengths are case-split, contents solver-quantified. fmt's %x is modelled; allocator capacity rounding approximated. Nothing is claimed for longer inputs.",
   technique="go/ssa symbolic execution -> SMT-LIB2 (QF_ABV terms) decided by z3; native replay of sat models",
   design="5/C17"),
}
not_applicable = {
}
pending = []
m = {
 "version": 1,
 "setup_cmd": "cd /verif/gosym && GOFLAGS=-mod=mod GOPROXY=off GOSUMDB=off GOTOOLCHAIN=local go build -o /verif/bin/gosym .",
 "hooks": {
   "guard": "verif",
   "enable": "no source hooks: harnesses and the zzvrf intrinsic package are injected with go/packages overlays (engine) and go test -overlay (native replay); nothing under /repo is built with a tag",
   "baseline_off_cmd": "cd /repo && GOFLAGS=-mod=mod GOPROXY=off go test -vet=off -count=1 ./bint ./eth ./jrpc2 ./shovel/config ./shovel/glf ./wctx ./wos ./wslog",
   "source_commits": [],
   "add_only": True,
 },
 "engines": [{"name": "gosym", "path": "/verif/gosym", "serves_properties": sorted(checks), "kind_free_text": "go/ssa -> SMT symbolic executor (own code) with z3 5.1.0 (z3-new) as back end (z3 4.8.12 / cvc5 selectable); path exploration by re-execution; if-conversion of pure regions; native replay via go test -overlay"}],
 "checks": [],
 "not_applicable": [],
 "notes": "C08's concurrent half is explored under a bounded scheduler for callers of one range only; C18 is a predictive query over sequentialised paths; C20's schedule half is explored under a bounded scheduler (said in each check's level_note and evidence assumptions). C16's space is mostly configuration shape enumerated by the engine's case splits.",
}
checks["C15"] = dict(
   text="Non-interference by symbolic execution of the real validation (config.ValidateFix / CheckUserInput / ValidateFilterRefs / wstrings.Safe) followed by every real SQL text builder (config.DDL, wpg.Table.DDL/Migrate, dig.Integration.Delete, dig.Filter.Accept reference lookup incl. nested components, dig.Integration.notify, shovel.NewTask application_name): one symbolic byte is appended to each of 22 configuration string positions on the file path and on the dashboard path; whenever the configuration is accepted and a recorded SQL text is a function of the byte, z3 proves the byte is an identifier character. Chain-derived bytes must not influence any SQL text.",
   note="ASCII assumption for symbolic configuration bytes (Safe accepts non-ASCII letters/digits: outside the claim). One appended byte per run; skeleton configuration of 2 integrations. pgx-quoted COPY identifiers count as parameters.",
   technique="go/ssa symbolic execution -> SMT (z3), term-dependency (non-interference) check at the SQL sinks; native replay",
   design="5/C15")
checks["C18"] = dict(
   text="Reduced form, solver-decided per recorded path: the real Task.load/insert goroutines inside a Converge step, two tasks fetching one cached range through the real caching client with any two of five data plans and consuming the shared blocks, and the head cache used by two tasks and the poller, are executed symbolically with every memory access, lock, fork, join logged per thread; for each pair of conflicting accesses z3 decides over integer order variables whether some schedule consistent with program order, fork/join, lock mutual exclusion and read consistency leaves them unordered. Every reported race is replayed natively under go test -race.",
   note="Predictive analysis of the recorded paths (control flow fixed by read consistency; conservative: never invents a race, may miss races on other paths). Goroutines are sequentialised by the engine; byte buffers are one location each. 8 known findings (shared cached blocks mutated in place; sync.Once re-assigned under a different lock) recorded; 1 fixed.",
   technique="go/ssa symbolic execution with event logging -> SMT order-variable race query (z3, QF_IDL); native replay under the Go race detector",
   design="5/C18")
checks["C19"] = dict(
   text="Bounded symbolic model checking of the real web.Handler.Authn, Login, isLoopback and web.New (password generation): both switches, loopback oracle, malformed address, form failure as solver Booleans, passwords as symbolic strings; z3 decides served <=> disabled or (loopback and not enforced) or own session, redirect to /login otherwise, session issued only for POST with the exact password. The route table of cmd/shovel main is read structurally from SSA.",
   note="session/age cryptography, net.ParseIP, http plumbing are cut (engine redirects; identical textual cuts natively). Cookie states and methods case-split. The route check is structural, not a solver query.",
   technique="go/ssa symbolic execution -> SMT (z3) + structural SSA read of the route table; native replay",
   design="5/C19")
checks["C20"] = dict(
   text="Configuration half: symbolic execution of the real loadTasks, Root.AllIntegrations/AllSources/AllSourcesByName, NewTask and options over file/database mixes: exactly one task per enabled integration and source with that source's settings and the reference's range, file wins clashes, unknown source is a startup error, context names equal the task's names. Schedule half: the real Manager.Run/Restart/runTask with real tasks executed under the engine's scheduler (goroutines as engine threads, every synchronisation operation a scheduling point, next-thread choice an enumerated decision): after Restart returns no task of the previous generation issues a source call, the manager holds the new tasks, no deadlock, no goroutine panic.",
   note="Schedules are enumerated by the engine's path exploration under a preemption budget (0 quick / 1 thorough) and a scheduling-point bound; paths cut at the bound are not counted as held. One restart while the first generation runs; overlapping restarts are not explored. Configuration shape space enumerated by case splits; numeric settings solver variables. Native replay runs real goroutines (timing dependent).",
   technique="go/ssa symbolic execution; schedules as enumerated decisions of the path exploration (bounded context switches) -> SMT (z3) for data; native replay",
   design="5/C20")
for pid in sorted(checks):
    c = checks[pid]
    m["checks"].append({
      "property_id": pid,
      "quick_cmd": f"./check {pid} quick",
      "thorough_cmd": f"./check {pid} thorough",
      "evidence_file": f"/verif/evidence/{pid}.json",
      "replay_cmd_template": "/verif/bin/gosym replay {path}",
      "engine": "gosym",
      "level_claimed": {"category": "model_checking", "text": c["text"], "design_ref": c["design"]},
      "level_note": c["note"],
      "technique": c["technique"],
    })
for pid in pending:
    if pid not in checks and pid not in not_applicable:
        m["not_applicable"].append({"property_id": pid, "reason": "check not built yet (work in progress; see DESIGN.md section 5 for the plan)"})
for pid, r in not_applicable.items():
    m["not_applicable"].append({"property_id": pid, "reason": r})
json.dump(m, open("/verif/MANIFEST.json", "w"), indent=1)
print("checks:", len(m["checks"]), "n/a:", len(m["not_applicable"]))
