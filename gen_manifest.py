#!/usr/bin/env python3
# Regenerates MANIFEST.json from the table below (kept in one place so that it stays valid).
import json
checks = {
 "C17": dict(
   text="Bounded symbolic model checking of the real codec functions (eth.decode, Uint64/Byte/Bytes.UnmarshalJSON, Bytes.Write/MarshalJSON, DecodeHex/EncodeHex, encoding/hex from its own SSA, bint.Encode/Decode/size): every token of each length up to the bound is one symbolic byte array, z3 decides exactness, error and no-panic assertions for all contents; counterexamples are replayed natively with go test before being reported.",
   note="Bounds: token lengths listed in evidence.bounds (quick <=22/16 bytes, thorough <=40/70); lengths are case-split, contents solver-quantified. fmt's %x is modelled; allocator capacity rounding approximated. Nothing is claimed for longer inputs.",
   technique="go/ssa symbolic execution -> SMT-LIB2 (QF_ABV terms) decided by z3; native replay of sat models",
   design="5/C17"),
}
not_applicable = {
}
pending = ["C01","C02","C03","C04","C05","C06","C07","C08","C09","C10","C11","C12","C13","C14","C15","C16","C18","C19","C20"]
m = {
 "version": 1,
 "setup_cmd": "cd /verif/gosym && GOFLAGS=-mod=mod GOPROXY=off GOSUMDB=off GOTOOLCHAIN=local go build -o /verif/bin/gosym .",
 "hooks": {
   "guard": "verif",
   "enable": "no source hooks: harnesses and the zzvrf intrinsic package are injected with go/packages overlays (engine) and go test -overlay (native replay); nothing under /repo is built with a tag",
   "baseline_off_cmd": "cd /repo && GOFLAGS=-mod=mod GOPROXY=off go test -vet=off -count=1 ./bint ./eth ./jrpc2 ./shovel/config ./shovel/glf ./wctx ./wos ./wslog",
   "source_commits": [],
   "add_only": True,
 },
 "engines": [{"name": "gosym", "path": "/verif/gosym", "serves_properties": sorted(checks), "kind_free_text": "go/ssa -> SMT symbolic executor (own code) with z3 4.8.12 back end; path exploration by re-execution; if-conversion of pure regions; native replay via go test -overlay"}],
 "checks": [],
 "not_applicable": [],
 "notes": "Properties listed under not_applicable with reason 'check not built yet' are work in progress in this session, not judged inapplicable.",
}
for pid in sorted(checks):
    c = checks[pid]
    m["checks"].append({
      "property_id": pid,
      "quick_cmd": f"./check {pid} quick",
      "thorough_cmd": f"./check {pid} thorough",
      "evidence_file": f"/verif/evidence/{pid}.json",
      "replay_cmd_template": "/verif/bin/gosym replay {path}",
      "engine": "gosym",
      "level_claimed": {"category": "model_checking", "text": c["text"], "design_ref": c["design"]},
      "level_note": c["note"],
      "technique": c["technique"],
    })
for pid in pending:
    if pid not in checks and pid not in not_applicable:
        m["not_applicable"].append({"property_id": pid, "reason": "check not built yet (work in progress; see DESIGN.md section 5 for the plan)"})
for pid, r in not_applicable.items():
    m["not_applicable"].append({"property_id": pid, "reason": r})
json.dump(m, open("/verif/MANIFEST.json", "w"), indent=1)
print("checks:", len(m["checks"]), "n/a:", len(m["not_applicable"]))
