package wpg

import "github.com/jackc/pgx/v5"

// ZZCollect answers information_schema.columns for Diff (cut at
// pgx.CollectRows: engine redirect, identical textual cut natively).
var ZZCollect func() []Column

func zzCollectRows(rows pgx.Rows, fn any) ([]Column, error) {
	if ZZCollect != nil {
		return ZZCollect(), nil
	}
	return nil, nil
}
