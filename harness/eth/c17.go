package eth

import "github.com/indexsupply/shovel/zzvrf"

// hexClass returns (isHex, nibble) of one ASCII byte without branching.
func zzHex(c byte) (bool, uint64) {
	dig := zzvrf.And(c >= '0', c <= '9')
	low := zzvrf.And(c >= 'a', c <= 'f')
	up := zzvrf.And(c >= 'A', c <= 'F')
	nib := zzvrf.Ite(dig, uint64(c-'0'), zzvrf.Ite(low, uint64(c-'a'+10), uint64(c-'A'+10)))
	return zzvrf.Or(dig, zzvrf.Or(low, up)), nib
}

// zzWellFormed: token is "0x<digits>" in quotes ('x' or nothing else: the
// JSON-RPC spec uses lower-case x).
func zzWellFormed(data []byte) bool {
	n := len(data)
	if n < 4 {
		return false
	}
	return zzvrf.And(zzvrf.And(data[0] == '"', data[n-1] == '"'), zzvrf.And(data[1] == '0', data[2] == 'x'))
}

// ZZ_C17_Uint64: any token of n bytes decoded as a hex quantity.
func ZZ_C17_Uint64(n int) {
	data := zzvrf.Bytes("tok", n, n)
	var v Uint64
	var err error
	panicked := false
	func() {
		defer func() {
			if r := recover(); r != nil {
				panicked = true
			}
		}()
		err = v.UnmarshalJSON(data)
	}()
	zzvrf.Assert(!panicked, "no-panic")
	if panicked {
		return
	}
	if n < 4 {
		zzvrf.Assert(err != nil, "short-token-is-error")
		zzvrf.Reach("end")
		return
	}
	d := n - 4
	allhex := true
	ovf := false
	ref := uint64(0)
	for i := 0; i < d; i++ {
		ok, nib := zzHex(data[3+i])
		allhex = zzvrf.And(allhex, ok)
		ovf = zzvrf.Or(ovf, ref>>60 != 0)
		ref = ref<<4 | nib
	}
	wf := zzWellFormed(data)
	// every spelling of a value that fits in 64 bits (leading zeros included)
	zzvrf.Assert(zzvrf.Implies(zzvrf.And(wf, zzvrf.And(allhex, !ovf)), zzvrf.And(err == nil, uint64(v) == ref)), "quantity-exact")
	zzvrf.Assert(zzvrf.Implies(zzvrf.And(wf, !allhex), err != nil), "non-hex-is-error")
	// a quantity that does not fit in 64 bits is an error, never a wrapped value
	zzvrf.Assert(zzvrf.Implies(zzvrf.And(wf, zzvrf.And(allhex, ovf)), err != nil), "overflowing-quantity-is-error")
	zzvrf.Reach("end")
}

// ZZ_C17_Byte: one-byte quantities (status, type).
func ZZ_C17_Byte(n int) {
	data := zzvrf.Bytes("tok", n, n)
	var v Byte
	var err error
	panicked := false
	func() {
		defer func() {
			if r := recover(); r != nil {
				panicked = true
			}
		}()
		err = v.UnmarshalJSON(data)
	}()
	zzvrf.Assert(!panicked, "no-panic")
	if panicked || n < 4 {
		zzvrf.Reach("end")
		return
	}
	d := n - 4
	allhex := true
	ref := uint64(0)
	for i := 0; i < d; i++ {
		ok, nib := zzHex(data[3+i])
		allhex = zzvrf.And(allhex, ok)
		ref = ref<<4 | nib
	}
	wf := zzWellFormed(data)
	if d <= 2 {
		zzvrf.Assert(zzvrf.Implies(zzvrf.And(wf, allhex), zzvrf.And(err == nil, uint64(v) == ref)), "byte-exact")
	}
	zzvrf.Assert(zzvrf.Implies(zzvrf.And(wf, !allhex), err != nil), "non-hex-is-error")
	zzvrf.Reach("end")
}

// ZZ_C17_Bytes: any token of n bytes decoded into a destination whose prior
// length pl, capacity pc and content are arbitrary (covers every sequence of
// earlier decodes into the same destination).
func ZZ_C17_Bytes(n, pl, pc int) {
	data := zzvrf.Bytes("tok", n, n)
	hb := Bytes(zzvrf.Bytes("prev", pl, pc))
	if pc == 0 {
		hb = nil
	}
	var err error
	panicked := false
	func() {
		defer func() {
			if r := recover(); r != nil {
				panicked = true
			}
		}()
		err = hb.UnmarshalJSON(data)
	}()
	zzvrf.Assert(!panicked, "no-panic")
	if panicked || n < 4 {
		zzvrf.Reach("end")
		return
	}
	d := n - 4
	allhex := true
	for i := 0; i < d; i++ {
		ok, _ := zzHex(data[3+i])
		allhex = zzvrf.And(allhex, ok)
	}
	wf := zzWellFormed(data)
	if d%2 == 1 {
		zzvrf.Assert(zzvrf.Implies(wf, err != nil), "odd-digits-is-error")
	} else {
		same := len(hb) == d/2
		if same {
			for i := 0; i < d/2; i++ {
				_, hi := zzHex(data[3+2*i])
				_, lo := zzHex(data[3+2*i+1])
				same = zzvrf.And(same, uint64(hb[i]) == hi<<4|lo)
			}
		}
		zzvrf.Assert(zzvrf.Implies(zzvrf.And(wf, allhex), zzvrf.And(err == nil, same)), "bytes-exact-no-stale")
		zzvrf.Assert(zzvrf.Implies(zzvrf.And(wf, !allhex), err != nil), "non-hex-is-error")
	}
	zzvrf.Reach("end")
}

// ZZ_C17_Write: Bytes.Write replaces the value exactly.
func ZZ_C17_Write(m, pl, pc int) {
	p := zzvrf.Bytes("p", m, m)
	hb := Bytes(zzvrf.Bytes("prev", pl, pc))
	if pc == 0 {
		hb = nil
	}
	k, err := hb.Write(p)
	zzvrf.Assert(err == nil && k == m && len(hb) == m, "write-length")
	same := true
	for i := 0; i < m && i < len(hb); i++ {
		same = zzvrf.And(same, hb[i] == p[i])
	}
	zzvrf.Assert(same, "write-content")
	zzvrf.Reach("end")
}

// ZZ_C17_HexRoundTrip: DecodeHex(EncodeHex(b)) == b and
// Unmarshal(Marshal(b)) == b for any b of n bytes.
func ZZ_C17_HexRoundTrip(n int) {
	b := zzvrf.Bytes("b", n, n)
	s := EncodeHex(b)
	zzvrf.Assert(len(s) == 2+2*n, "encodehex-length")
	back := DecodeHex(s)
	zzvrf.Assert(zzvrf.BytesEq(back, b), "decodehex-encodehex")
	j, _ := Bytes(b).MarshalJSON()
	var hb Bytes
	err := hb.UnmarshalJSON(j)
	zzvrf.Assert(err == nil, "unmarshal-marshal-ok")
	zzvrf.Assert(zzvrf.BytesEq(hb, b), "unmarshal-marshal")
	zzvrf.Reach("end")
}

// ZZ_C17_DecodeHexTotal: DecodeHex never panics on any string of n bytes and
// an odd number of digits is read as if left-padded with one zero.
func ZZ_C17_DecodeHexTotal(n int) {
	s := zzvrf.Str("s", n)
	panicked := false
	var out []byte
	func() {
		defer func() {
			if r := recover(); r != nil {
				panicked = true
			}
		}()
		out = DecodeHex(s)
	}()
	zzvrf.Assert(!panicked, "no-panic")
	if panicked {
		return
	}
	digits := s
	if n >= 2 && s[0] == '0' && (s[1] == 'x' || s[1] == 'X') {
		digits = s[2:]
	}
	allhex := true
	for i := 0; i < len(digits); i++ {
		ok, _ := zzHex(digits[i])
		allhex = zzvrf.And(allhex, ok)
	}
	d := len(digits)
	if allhex {
		zzvrf.Assert(len(out) == (d+1)/2, "decodehex-length")
		// value check on the last byte (low nibble is the last digit)
		if d > 0 && len(out) == (d+1)/2 {
			_, lo := zzHex(digits[d-1])
			hi := uint64(0)
			if d >= 2 {
				_, hi = zzHex(digits[d-2])
			}
			zzvrf.Assert(uint64(out[len(out)-1]) == hi<<4|lo, "decodehex-last-byte")
		}
	}
	zzvrf.Reach("end")
}
