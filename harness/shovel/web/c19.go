package web

import (
	"context"
	"errors"
	"github.com/indexsupply/shovel/shovel"
	"github.com/jackc/pgx/v5/pgconn"
	"github.com/jackc/pgx/v5/pgxpool"
	"html/template"
	"net"
	"net/http"

	"filippo.io/age"

	"github.com/indexsupply/shovel/shovel/config"
	"github.com/indexsupply/shovel/wos"
	"github.com/indexsupply/shovel/zzvrf"
	"github.com/kr/session"
)

// environment of the authentication code (cut points, see gosym/load.go)
var (
	zzCookie     int // 0 none, 1 garbage, 2 minted by this process, 3 minted under another key
	zzSetCalled  int
	zzMalformed  bool
	zzLoopback   bool
	zzFormPass   string
	zzParseFails bool
	zzStatus     int
	zzLocation   string
	zzNextRan    int
)

func zzSessionGet(r *http.Request, v any, c *session.Config) error {
	if zzCookie == 2 {
		return nil
	}
	return errors.New("no valid session")
}

func zzSessionSet(w http.ResponseWriter, v any, c *session.Config) error {
	zzSetCalled++
	return nil
}

func zzRedirect(w http.ResponseWriter, r *http.Request, url string, code int) {
	zzStatus, zzLocation = code, url
}

func zzHTTPError(w http.ResponseWriter, msg string, code int) { zzStatus = code }

func zzParseForm(r *http.Request) error {
	if zzParseFails {
		return errors.New("bad form")
	}
	return nil
}

var zzForm map[string]string

func zzFormValue(r *http.Request, key string) string {
	if key == "password" {
		return zzFormPass
	}
	return zzForm[key]
}

// zzWebExec: natively the handlers' h.pgp.Exec is rewritten to this (the pool
// is nil in the harness); in the engine (*pgxpool.Pool).Exec is redirected to
// the shovel package's model, which hands the statement to the same recorder.
func zzWebExec(p *pgxpool.Pool, ctx context.Context, sql string, args ...any) (pgconn.CommandTag, error) {
	if shovel.ZZPoolExecHook != nil {
		return pgconn.CommandTag{}, shovel.ZZPoolExecHook(sql, args)
	}
	return pgconn.CommandTag{}, errors.New("no recorder")
}

// ZZ_C15_SaveSource: the dashboard's /save-source handler with a source name
// ending in an arbitrary byte. A name that fails the identifier check must not
// be stored: stored source names are later spliced into SQL text
// (application_name, the notification channel) without another check.
func ZZ_C15_SaveSource() {
	c := zzvrf.U8("hostile-byte")
	name := "src" + string([]byte{c})
	zzForm = map[string]string{"chainID": "5", "name": name, "ethURL": "http://node"}
	stored := false
	var storedName string
	shovel.ZZPoolExecHook = func(sql string, args []any) error {
		stored = true
		if len(args) >= 2 {
			storedName, _ = args[1].(string)
		}
		return errors.New("recorded") // stop the handler before it restarts the (absent) manager
	}
	defer func() { shovel.ZZPoolExecHook, zzForm = nil, nil }()
	zzStatus, zzLocation = 0, ""
	h := &Handler{conf: &config.Root{}}
	r := &http.Request{Method: "POST", RemoteAddr: "x", Form: map[string][]string{"chainID": {"5"}, "name": {name}, "ethURL": {"http://node"}}}
	func() {
		defer func() { recover() }()
		h.SaveSource(&zzRW{}, r)
	}()
	safe := zzvrf.Or(zzvrf.Or(zzvrf.And(c >= 'a', c <= 'z'), zzvrf.And(c >= 'A', c <= 'Z')), zzvrf.Or(zzvrf.And(c >= '0', c <= '9'), zzvrf.Or(c == '_', c == '-')))
	zzvrf.Assert(zzvrf.Implies(stored, safe), "only-checked-source-names-are-stored")
	if stored {
		zzvrf.Assert(storedName == name, "stored-name-is-the-submitted-one")
		zzvrf.Reach("stored")
	} else {
		zzvrf.Reach("rejected")
	}
	zzvrf.Reach("end")
}

// isLoopback's two library calls
// zzRealNet: the address harness (ZZ_C19_Addr) uses real addresses: the cuts
// delegate to the real net functions (natively; in the engine the flag
// "real-net" evaluates them on the concrete strings instead of redirecting).
var zzRealNet bool

func zzSplitHostPort(hostport string) (string, string, error) {
	if zzRealNet {
		return net.SplitHostPort(hostport)
	}
	if zzMalformed {
		return "", "", errors.New("missing port in address")
	}
	return "host", "1", nil
}

type zzIP struct{}

func zzIsLoopbackHost(host string) bool {
	if zzRealNet {
		return net.ParseIP(host).IsLoopback()
	}
	return zzLoopback
}

func zzTemplate(h *Handler, local bool, name string) (*template.Template, error) {
	return nil, errors.New("templates are not part of the check")
}

type zzRW struct{ hdr http.Header }

func (w *zzRW) Header() http.Header         { return w.hdr }
func (w *zzRW) Write(b []byte) (int, error) { return len(b), nil }
func (w *zzRW) WriteHeader(code int)        { zzStatus = code }

// zzMethod: the HTTP method is an arbitrary string of 0..7 bytes (the length
// is case-split, the bytes are solver variables), so any method-based special
// case in the code under test is reachable.
func zzMethod() string {
	n := []int{0, 3, 4, 5, 6, 7}[zzvrf.Pick("method-length", 6)]
	return zzvrf.Str("method", n)
}

// ZZ_C19_Authn: the authentication wrapper for every combination of the two
// switches, loopback classification (oracle), malformed remote address and
// cookie state.
func ZZ_C19_Authn(cookie int) {
	conf := &config.Root{}
	conf.Dashboard.DisableAuthn = zzvrf.Bool("disable_authn")
	conf.Dashboard.EnableLoopbackAuthn = zzvrf.Bool("enable_loopback_authn")
	zzCookie, zzSetCalled, zzStatus, zzLocation, zzNextRan = cookie, 0, 0, "", 0
	zzMalformed, zzLoopback = zzvrf.Bool("remote-addr-malformed"), zzvrf.Bool("remote-addr-is-loopback")
	h := &Handler{conf: conf}
	next := func(w http.ResponseWriter, r *http.Request) { zzNextRan++ }
	r := &http.Request{Method: zzMethod(), RemoteAddr: "x"}
	h.Authn(next).ServeHTTP(&zzRW{}, r)
	allowed := zzvrf.Or(conf.Dashboard.DisableAuthn, zzvrf.Or(zzvrf.And(!conf.Dashboard.EnableLoopbackAuthn, zzvrf.And(zzLoopback, !zzMalformed)), cookie == 2))
	zzvrf.Assert((zzNextRan == 1) == allowed, "served-iff-disabled-or-loopback-or-own-session")
	zzvrf.Assert(zzNextRan <= 1, "handler-runs-at-most-once")
	if zzNextRan == 0 {
		zzvrf.Assert(zzStatus == http.StatusSeeOther && zzLocation == "/login", "otherwise-redirected-to-login")
	}
	zzvrf.Assert(zzSetCalled == 0, "wrapper-never-issues-a-session")
	zzvrf.Reach("end")
}

// ZZ_C19_Login: a session is issued only for POST with the exact password.
//
//	plen: length of the configured password (0 = generated at start-up)
//	slen: length of the supplied password
func ZZ_C19_Login(plen, slen int) {
	conf := &config.Root{}
	conf.Dashboard.RootPassword = wos.EnvString(zzvrf.Str("configured-password", plen))
	zzCookie, zzSetCalled, zzStatus, zzLocation, zzNextRan = 0, 0, 0, "", 0
	zzMalformed, zzLoopback = zzvrf.Bool("remote-addr-malformed"), zzvrf.Bool("remote-addr-is-loopback")
	zzParseFails = zzvrf.Bool("parse-form-fails")
	zzFormPass = zzvrf.Str("supplied-password", slen)
	h := New(nil, conf, nil)
	zzvrf.Assert(len(h.password) > 0, "password-never-empty")
	if plen > 0 {
		zzvrf.Assert(string(h.password) == string(conf.Dashboard.RootPassword), "configured-password-used")
	} else {
		zzvrf.Assert(len(h.password) == 16, "generated-password-length")
	}
	method := zzMethod()
	r := &http.Request{Method: method, RemoteAddr: "x"}
	h.Login(&zzRW{}, r)
	right := zzFormPass == string(h.password)
	if zzSetCalled > 0 {
		zzvrf.Assert(method == "POST", "session-only-on-post")
		zzvrf.Assert(right, "session-only-for-the-exact-password")
		zzvrf.Assert(!zzParseFails, "session-only-for-a-parsed-form")
	}
	if method == "POST" && !zzParseFails {
		zzvrf.Assert((zzSetCalled == 1) == right, "right-password-logs-in")
		if !right {
			zzvrf.Assert(zzStatus == http.StatusUnauthorized, "wrong-password-is-unauthorized")
		}
	}
	zzvrf.Reach("end")
}

func zzParseIP(s string) net.IP                   { return nil }
func zzIPIsLoopback(ip net.IP) bool               { return zzLoopback }
func zzAgeIdentity() (*age.X25519Identity, error) { return nil, nil }

// lower-level cuts, consistent with zzSessionGet: the request carries a
// cookie named "session" in cookie states 1..3; only state 2 decodes.
func zzCookieOf(r *http.Request, name string) (*http.Cookie, error) {
	// (the cookie name is not compared: under the engine session.DefaultCookie
	// is an uninitialised external global)
	if zzCookie == 0 {
		return nil, http.ErrNoCookie
	}
	return &http.Cookie{Name: name, Value: "v"}, nil
}

func zzSessionDecode(value string, v any, keys ...any) error {
	if zzCookie == 2 {
		return nil
	}
	return errors.New("cookie does not decrypt under this process's key")
}

var zzAddrs = []struct {
	addr string
	loop bool
}{
	{"127.0.0.1:4000", true}, {"127.9.8.7:1", true}, {"[::1]:4000", true},
	{"10.0.0.7:4000", false}, {"192.168.1.5:4000", false}, {"8.8.8.8:53", false},
	{"169.254.10.20:4000", false}, {"[fe80::1]:4000", false}, {"[fe80::1c2b:3aff:fe4d:5e6f%eth0]:4000", false}, {"[fe80::1%lo0]:4000", false},
	{"0.0.0.0:1", false}, {"[::]:1", false}, {"[::ffff:127.0.0.1]:1", true}, {"localhost:4000", false}, {"127.0.0.1", false}, {"", false},
}

// ZZ_C19_Addr: the wrapper with REAL remote addresses (no loopback oracle):
// without a session the handler runs iff authentication is disabled, or
// loopback authentication is not enforced and the peer address is a loopback
// address (127.0.0.0/8, ::1, also IPv4-mapped) - not a link-local, private,
// unspecified, named or malformed one.
func ZZ_C19_Addr(i int) {
	zzRealNet = true
	defer func() { zzRealNet = false }()
	conf := &config.Root{}
	conf.Dashboard.DisableAuthn = zzvrf.Bool("disable_authn")
	conf.Dashboard.EnableLoopbackAuthn = zzvrf.Bool("enable_loopback_authn")
	zzCookie, zzSetCalled, zzStatus, zzLocation, zzNextRan = 0, 0, 0, "", 0
	h := &Handler{conf: conf}
	next := func(w http.ResponseWriter, r *http.Request) { zzNextRan++ }
	r := &http.Request{Method: "POST", RemoteAddr: zzAddrs[i].addr}
	h.Authn(next).ServeHTTP(&zzRW{}, r)
	allowed := zzvrf.Or(conf.Dashboard.DisableAuthn, zzvrf.And(!conf.Dashboard.EnableLoopbackAuthn, zzAddrs[i].loop))
	zzvrf.Assert((zzNextRan == 1) == allowed, "served-iff-disabled-or-real-loopback-peer")
	zzvrf.Reach("end")
}
