package web

import (
	"errors"
	"html/template"
	"net"
	"net/http"

	"filippo.io/age"

	"github.com/indexsupply/shovel/shovel/config"
	"github.com/indexsupply/shovel/wos"
	"github.com/indexsupply/shovel/zzvrf"
	"github.com/kr/session"
)

// environment of the authentication code (cut points, see gosym/load.go)
var (
	zzCookie      int // 0 none, 1 garbage, 2 minted by this process, 3 minted under another key
	zzSetCalled   int
	zzMalformed   bool
	zzLoopback    bool
	zzFormPass    string
	zzParseFails  bool
	zzStatus      int
	zzLocation    string
	zzNextRan     int
)

func zzSessionGet(r *http.Request, v any, c *session.Config) error {
	if zzCookie == 2 {
		return nil
	}
	return errors.New("no valid session")
}

func zzSessionSet(w http.ResponseWriter, v any, c *session.Config) error {
	zzSetCalled++
	return nil
}

func zzRedirect(w http.ResponseWriter, r *http.Request, url string, code int) {
	zzStatus, zzLocation = code, url
}

func zzHTTPError(w http.ResponseWriter, msg string, code int) { zzStatus = code }

func zzParseForm(r *http.Request) error {
	if zzParseFails {
		return errors.New("bad form")
	}
	return nil
}

func zzFormValue(r *http.Request, key string) string {
	if key == "password" {
		return zzFormPass
	}
	return ""
}

// isLoopback's two library calls
func zzSplitHostPort(hostport string) (string, string, error) {
	if zzMalformed {
		return "", "", errors.New("missing port in address")
	}
	return "host", "1", nil
}

type zzIP struct{}

func zzIsLoopbackHost(host string) bool { return zzLoopback }

func zzTemplate(h *Handler, local bool, name string) (*template.Template, error) {
	return nil, errors.New("templates are not part of the check")
}

type zzRW struct{ hdr http.Header }

func (w *zzRW) Header() http.Header         { return w.hdr }
func (w *zzRW) Write(b []byte) (int, error) { return len(b), nil }
func (w *zzRW) WriteHeader(code int)        { zzStatus = code }

// zzMethod: the HTTP method is an arbitrary string of 0..7 bytes (the length
// is case-split, the bytes are solver variables), so any method-based special
// case in the code under test is reachable.
func zzMethod() string {
	n := []int{0, 3, 4, 5, 6, 7}[zzvrf.Pick("method-length", 6)]
	return zzvrf.Str("method", n)
}

// ZZ_C19_Authn: the authentication wrapper for every combination of the two
// switches, loopback classification (oracle), malformed remote address and
// cookie state.
func ZZ_C19_Authn(cookie int) {
	conf := &config.Root{}
	conf.Dashboard.DisableAuthn = zzvrf.Bool("disable_authn")
	conf.Dashboard.EnableLoopbackAuthn = zzvrf.Bool("enable_loopback_authn")
	zzCookie, zzSetCalled, zzStatus, zzLocation, zzNextRan = cookie, 0, 0, "", 0
	zzMalformed, zzLoopback = zzvrf.Bool("remote-addr-malformed"), zzvrf.Bool("remote-addr-is-loopback")
	h := &Handler{conf: conf}
	next := func(w http.ResponseWriter, r *http.Request) { zzNextRan++ }
	r := &http.Request{Method: zzMethod(), RemoteAddr: "x"}
	h.Authn(next).ServeHTTP(&zzRW{}, r)
	allowed := zzvrf.Or(conf.Dashboard.DisableAuthn, zzvrf.Or(zzvrf.And(!conf.Dashboard.EnableLoopbackAuthn, zzvrf.And(zzLoopback, !zzMalformed)), cookie == 2))
	zzvrf.Assert((zzNextRan == 1) == allowed, "served-iff-disabled-or-loopback-or-own-session")
	zzvrf.Assert(zzNextRan <= 1, "handler-runs-at-most-once")
	if zzNextRan == 0 {
		zzvrf.Assert(zzStatus == http.StatusSeeOther && zzLocation == "/login", "otherwise-redirected-to-login")
	}
	zzvrf.Assert(zzSetCalled == 0, "wrapper-never-issues-a-session")
	zzvrf.Reach("end")
}

// ZZ_C19_Login: a session is issued only for POST with the exact password.
//   plen: length of the configured password (0 = generated at start-up)
//   slen: length of the supplied password
func ZZ_C19_Login(plen, slen int) {
	conf := &config.Root{}
	conf.Dashboard.RootPassword = wos.EnvString(zzvrf.Str("configured-password", plen))
	zzCookie, zzSetCalled, zzStatus, zzLocation, zzNextRan = 0, 0, 0, "", 0
	zzMalformed, zzLoopback = zzvrf.Bool("remote-addr-malformed"), zzvrf.Bool("remote-addr-is-loopback")
	zzParseFails = zzvrf.Bool("parse-form-fails")
	zzFormPass = zzvrf.Str("supplied-password", slen)
	h := New(nil, conf, nil)
	zzvrf.Assert(len(h.password) > 0, "password-never-empty")
	if plen > 0 {
		zzvrf.Assert(string(h.password) == string(conf.Dashboard.RootPassword), "configured-password-used")
	} else {
		zzvrf.Assert(len(h.password) == 16, "generated-password-length")
	}
	method := zzMethod()
	r := &http.Request{Method: method, RemoteAddr: "x"}
	h.Login(&zzRW{}, r)
	right := zzFormPass == string(h.password)
	if zzSetCalled > 0 {
		zzvrf.Assert(method == "POST", "session-only-on-post")
		zzvrf.Assert(right, "session-only-for-the-exact-password")
		zzvrf.Assert(!zzParseFails, "session-only-for-a-parsed-form")
	}
	if method == "POST" && !zzParseFails {
		zzvrf.Assert((zzSetCalled == 1) == right, "right-password-logs-in")
		if !right {
			zzvrf.Assert(zzStatus == http.StatusUnauthorized, "wrong-password-is-unauthorized")
		}
	}
	zzvrf.Reach("end")
}

func zzParseIP(s string) net.IP        { return nil }
func zzIPIsLoopback(ip net.IP) bool    { return zzLoopback }
func zzAgeIdentity() (*age.X25519Identity, error) { return nil, nil }

// lower-level cuts, consistent with zzSessionGet: the request carries a
// cookie named "session" in cookie states 1..3; only state 2 decodes.
func zzCookieOf(r *http.Request, name string) (*http.Cookie, error) {
	// (the cookie name is not compared: under the engine session.DefaultCookie
	// is an uninitialised external global)
	if zzCookie == 0 {
		return nil, http.ErrNoCookie
	}
	return &http.Cookie{Name: name, Value: "v"}, nil
}

func zzSessionDecode(value string, v any, keys ...any) error {
	if zzCookie == 2 {
		return nil
	}
	return errors.New("cookie does not decrypt under this process's key")
}
