package shovel

import (
	"context"
	"errors"
	"sync"

	"github.com/indexsupply/shovel/dig"
	"github.com/indexsupply/shovel/eth"
	"github.com/indexsupply/shovel/jrpc2"
	"github.com/indexsupply/shovel/shovel/config"
	"github.com/indexsupply/shovel/shovel/glf"
	"github.com/indexsupply/shovel/wctx"
	"github.com/indexsupply/shovel/wpg"
	"github.com/indexsupply/shovel/zzvrf"
)

// ---- chain model: two versions A (0) and B (1) sharing the prefix n <= fork ----

type zzChainT struct {
	fork  uint64
	reorg bool // version B differs from A above fork; otherwise a single version
}

var zzChain zzChainT

// zzH: hash of block n in version v. Collision-free by construction
// (zzvrf.Hash32 is injective); versions agree up to the fork point.
func zzH(v int, n uint64) []byte {
	if !zzChain.reorg || v == 0 {
		return zzvrf.Hash32("chain", 0, n)
	}
	if n <= zzChain.fork {
		return zzvrf.Hash32("chain", 0, n)
	}
	return zzvrf.Hash32("chain", 1, n)
}

// ---- Source stub ----

type zzSource struct {
	url       *jrpc2.URL
	withHash  bool  // data plan carries hashes/parents
	version   func() int
	getLog    [][2]uint64 // ghost: (start, limit) of every Get
	mu        sync.Mutex
	headFixed bool
	head      uint64
	nullAbove bool // Hash(n) for n above the head answers "no such block" (error after the fix)
}

func (s *zzSource) NextURL() *jrpc2.URL {
	if s.url == nil && !zzvrf.Symbolic() {
		// native replay: a real URL (under the engine URL.String/Hostname are cut)
		s.url = jrpc2.MustURL("http://node")
	}
	return s.url
}

func (s *zzSource) ver() int {
	if s.version == nil {
		return 0
	}
	return s.version()
}

func (s *zzSource) Latest(ctx context.Context, url string, n uint64) (uint64, []byte, error) {
	if zzFault("rpc:latest") {
		return 0, nil, zzErrFault
	}
	h := s.head
	if !s.headFixed {
		h = zzvrf.U64("head")
		zzvrf.Assume(h < 1<<62)
	}
	return h, zzH(s.ver(), h), nil
}

func (s *zzSource) Hash(ctx context.Context, url string, n uint64) ([]byte, error) {
	if zzFault("rpc:hash") {
		return nil, zzErrFault
	}
	if s.nullAbove && s.headFixed && n > s.head {
		return nil, errors.New("missing block")
	}
	return zzH(s.ver(), n), nil
}

func (s *zzSource) Get(ctx context.Context, url string, f *glf.Filter, start, limit uint64) ([]eth.Block, error) {
	s.mu.Lock()
	s.getLog = append(s.getLog, [2]uint64{start, limit})
	s.mu.Unlock()
	if zzFault("rpc:get") {
		return nil, zzErrFault
	}
	v := s.ver()
	var blocks []eth.Block
	for i := uint64(0); i < limit; i++ {
		b := eth.Block{}
		b.Header.Number = eth.Uint64(start + i)
		if s.withHash {
			b.Header.Hash = zzH(v, start+i)
			b.Header.Parent = zzH(v, start+i-1)
		}
		blocks = append(blocks, b)
	}
	return blocks, nil
}

// ---- Destination stub: real Delete (SQL through pgmodel), recorded Insert ----

type zzDest struct {
	ig   dig.Integration
	name string
}

func zzNewDest(name string) *zzDest {
	ig, err := dig.New(name, dig.Event{}, nil, wpg.Table{Name: "t_" + name}, dig.Notification{}, "")
	if err != nil {
		panic(err)
	}
	return &zzDest{ig: ig, name: name}
}

func (d *zzDest) Insert(ctx context.Context, pgmut *sync.Mutex, pg wpg.Conn, blocks []eth.Block) (int64, error) {
	var nums []uint64
	for i := range blocks {
		nums = append(nums, blocks[i].Num())
	}
	pgmut.Lock()
	defer pgmut.Unlock()
	tx, ok := pg.(*zzTx)
	if !ok {
		// rows written on the pool itself: own session, committed immediately
		atx := &zzTx{db: zzCommitted.clone()}
		if err := atx.insertBlocks(wctx.SrcName(ctx), d.name, nums); err != nil {
			return 0, err
		}
		zzCommitted = atx.db.clone()
		zzCommits++
		zzvrf.Event("AUTOCOMMIT rows")
		if zzAfterCommit != nil {
			zzAfterCommit(zzCommits)
		}
		return int64(len(nums)), nil
	}
	if err := tx.insertBlocks(wctx.SrcName(ctx), d.name, nums); err != nil {
		return 0, err
	}
	return int64(len(nums)), nil
}

func (d *zzDest) Delete(ctx context.Context, pg wpg.Conn, n uint64) error {
	return d.ig.Delete(ctx, pg, n)
}

func (d *zzDest) Filter() glf.Filter { return glf.Filter{UseHeaders: true} }

// ---- task construction (fields set directly; loadTasks is C20's subject) ----

func zzTask(src Source, srcName, igName string, batch, conc int, start, stop uint64, deps []string) *Task {
	ctx := wctx.WithSrcName(context.Background(), srcName)
	ctx = wctx.WithIGName(ctx, igName)
	t := &Task{
		ctx:         ctx,
		batchSize:   batch,
		concurrency: conc,
		start:       start,
		stop:        stop,
		src:         src,
		srcName:     srcName,
		destConfig:  config.Integration{Name: igName, Dependencies: deps},
	}
	for i := 0; i < conc; i++ {
		t.dests = append(t.dests, zzNewDest(igName))
	}
	t.filter = t.dests[0].Filter()
	return t
}

func zzConverge(t *Task) (err error, panicked bool) {
	defer func() {
		if r := recover(); r != nil {
			panicked = true
		}
	}()
	err = t.Converge()
	return
}

func zzReset() {
	zzCommitted = zzDB{}
	zzOpenTx, zzCommits, zzTxSeq = 0, 0, 0
	zzFaults, zzFaultSeen, zzSingle = false, false, false
	zzSQLLog = nil
	zzAfterCommit = nil
	zzChain = zzChainT{}
	zzRefMember = nil
}

// zzPreState builds an arbitrary committed state of the pair satisfying the
// invariant: k cursor rows with increasing numbers (hashes canonical in
// version A for the first `canon` rows, arbitrary other hashes above), and
// table rows covering exactly (lo, top].
func zzPreState(src, ig string, k, canon int) *zzPair {
	p := zzPair{src: src, ig: ig, table: "t_" + ig, contig: true}
	var prev uint64
	for i := 0; i < k; i++ {
		n := zzvrf.U64("cursor.num")
		zzvrf.Assume(n < 1<<62)
		if i > 0 {
			zzvrf.Assume(n > prev)
		} else {
			zzvrf.Assume(n > 0)
		}
		prev = n
		var h []byte
		if i < canon {
			h = zzH(0, n)
		} else {
			h = zzvrf.Bytes("cursor.orphan-hash", 32, 32)
			zzvrf.Assume(!zzvrf.BytesEq(h, zzH(0, n)))
		}
		p.cur = append(p.cur, zzCur{num: n, hash: h})
	}
	if k > 0 {
		lo := zzvrf.U64("table.lo")
		zzvrf.Assume(lo < p.cur[0].num)
		p.hasRows, p.lo, p.hi = true, lo, p.cur[k-1].num
	}
	zzCommitted.pairs = append(zzCommitted.pairs, p)
	return &zzCommitted.pairs[len(zzCommitted.pairs)-1]
}

func zzFind(db *zzDB, src, ig string) *zzPair {
	for i := range db.pairs {
		if db.pairs[i].src == src && db.pairs[i].ig == ig {
			return &db.pairs[i]
		}
	}
	return nil
}

// zzInv: committed rows cover exactly the blocks up to the recorded position.
func zzInv(p *zzPair) bool {
	if p == nil {
		return true
	}
	if p.broken {
		return false
	}
	if len(p.cur) == 0 {
		return !p.hasRows
	}
	top := p.cur[len(p.cur)-1].num
	if !p.hasRows {
		return false
	}
	return zzvrf.And(p.contig, zzvrf.And(p.hi == top, p.lo < p.cur[0].num))
}
