package shovel

import (
	"context"
	"errors"

	"github.com/indexsupply/shovel/zzvrf"
)

func zzSamePair(a, b *zzPair) bool {
	if (a == nil) != (b == nil) {
		return false
	}
	if a == nil {
		return true
	}
	if len(a.cur) != len(b.cur) || a.hasRows != b.hasRows || a.broken != b.broken {
		return false
	}
	same := true
	for i := range a.cur {
		same = zzvrf.And(same, zzvrf.And(a.cur[i].num == b.cur[i].num, zzvrf.BytesEq(a.cur[i].hash, b.cur[i].hash)))
	}
	if a.hasRows {
		same = zzvrf.And(same, zzvrf.And(a.lo == b.lo, a.hi == b.hi))
	}
	return same
}

// ZZ_C06_Range: start/stop/resume. k = 0: no prior position; k = 1: one.
func ZZ_C06_Range(k, batch, startMode int) { zzC06Range(k, batch, startMode, 0, 1) }

// ZZ_C06_RangeConc: the same step with a partitioned load (concurrency conc):
// a batch cut short by stop must not let a late worker fetch past it.
func ZZ_C06_RangeConc(k, batch, startMode, conc int) { zzC06Range(k, batch, startMode, 0, conc) }

// ZZ_C06_RangeDep: the same step for an integration that references another
// one ("d1", one recorded position, symbolic): the stop and start bounds hold
// whatever the dependency's position is.
func ZZ_C06_RangeDep(k, batch, startMode int) { zzC06Range(k, batch, startMode, 1, 1) }

func zzC06Range(k, batch, startMode, withDep, conc int) {
	zzReset()
	zzvrf.Unwind(batch + 3)
	head := zzvrf.U64("head")
	zzvrf.Assume(head > 1 && head < 1<<62)
	src := &zzSource{withHash: true, headFixed: true, head: head, nullAbove: true}
	pre := zzPreState("s", "ig", k, k)
	var start uint64
	if startMode == 1 {
		start = zzvrf.U64("start")
		zzvrf.Assume(start > 0 && start < 1<<62)
	}
	stop := zzvrf.U64("stop")
	zzvrf.Assume(stop < 1<<62)
	var deps []string
	if withDep == 1 {
		deps = []string{"d1"}
		zzPreState("s", "d1", 1, 1)
	}
	t := zzTask(src, "s", "ig", batch, conc, start, stop, deps)
	if conc > 1 {
		zzvrf.Unwind(batch + conc + 3)
	}
	var p0 uint64
	if k > 0 {
		p0 = pre.cur[k-1].num
	}
	err, panicked := zzConverge(t)
	zzvrf.Assert(!panicked, "no-panic-for-any-start-stop-head")
	if panicked {
		return
	}
	post := zzFind(&zzCommitted, "s", "ig")
	wrote := post != nil && (len(post.insLog) > 0 || len(post.cur) != k)
	if k > 0 && stop > 0 && p0 >= stop {
		zzvrf.Assert(errors.Is(err, ErrDone), "done-once-stop-is-recorded")
		zzvrf.Assert(!wrote, "nothing-written-after-stop")
	}
	if k > 0 && head < p0 {
		zzvrf.Assert(errors.Is(err, ErrAhead) || errors.Is(err, ErrDone), "ahead-of-source")
		zzvrf.Assert(!wrote, "nothing-written-when-ahead")
	}
	if withDep == 1 {
		// with a dependency the first block and the step size are limited by the
		// dependency's position (C05); the start/stop bounds hold regardless
		if post != nil {
			for i, n := range post.insLog {
				if k > 0 {
					zzvrf.Assert(n > p0, "resumes-after-recorded-position")
					if i == 0 {
						zzvrf.Assert(n == p0+1, "resumes-at-position-plus-one")
					}
				} else if start > 0 {
					zzvrf.Assert(n >= start, "never-before-start")
				}
				zzvrf.Assert(stop == 0 || n <= stop, "never-after-stop")
			}
			for i := k; i < len(post.cur); i++ {
				zzvrf.Assert(stop == 0 || post.cur[i].num <= stop, "position-never-after-stop")
			}
			zzvrf.Assert(zzInv(post), "rows-cover-exactly-the-position")
		}
		zzvrf.Reach("end")
		return
	}
	if k == 0 && start == 0 && err == nil {
		// no position, no start: the source's current head is the first block indexed
		zzvrf.Assert(post != nil && len(post.insLog) > 0 && post.insLog[0] == head, "head-block-indexed-when-no-start")
	}
	if k == 0 && start == 0 && (stop == 0 || stop >= head) {
		zzvrf.Assert(err == nil, "first-step-at-head-succeeds")
	}
	if post != nil {
		for i, n := range post.insLog {
			if k > 0 {
				zzvrf.Assert(n > p0, "resumes-after-recorded-position")
				if i == 0 {
					zzvrf.Assert(n == p0+1, "resumes-at-position-plus-one")
				}
			} else if start > 0 {
				zzvrf.Assert(n >= start, "never-before-start")
				if i == 0 {
					zzvrf.Assert(n == start, "begins-at-configured-start")
				}
			} else if i == 0 {
				zzvrf.Assert(n == head, "begins-at-head-when-no-start")
			}
			zzvrf.Assert(stop == 0 || n <= stop, "never-after-stop")
		}
		for i := k; i < len(post.cur); i++ {
			zzvrf.Assert(stop == 0 || post.cur[i].num <= stop, "position-never-after-stop")
			if k == 0 && start > 0 {
				zzvrf.Assert(post.cur[i].num >= start, "position-never-before-start")
			}
		}
		zzvrf.Assert(zzInv(post), "rows-cover-exactly-the-position")
	}
	zzvrf.Reach("end")
}

// ZZ_C03_Reorg: pre-state with k cursor rows of which the top (k - canon) are
// orphaned; the chain is frozen (version A); other pairs share source, name or
// table. Up to k+1 fault-free steps. Decides C03 (convergence), the
// no-row-beyond-position clause of C02 at every commit, and C04's frame.
func ZZ_C03_Reorg(k, canon, batch, nsteps int) {
	zzReset()
	zzvrf.Unwind(batch + 3)
	head := zzvrf.U64("head")
	zzvrf.Assume(head > 1 && head < 1<<62)
	src := &zzSource{withHash: true, headFixed: true, head: head}
	pre := zzPreState("s", "ig", k, canon)
	p0 := pre.cur[k-1].num
	zzvrf.Assume(head > p0)
	// foreign pairs: same source other integration (own table), other source
	// same integration (shared table), same source other integration sharing the table
	f1 := zzPreState("s", "other", 1, 1)
	f2 := zzPreState("s2", "ig", 1, 1)
	f3 := zzPreState("s", "ig3", 1, 1)
	f3.table = "t_ig"
	snap := zzCommitted.clone()
	_, _, _ = f1, f2, f3
	t := zzTask(src, "s", "ig", batch, 1, 0, 0, nil)
	zzAfterCommit = func(n int) {
		zzvrf.Assert(zzInv(zzFind(&zzCommitted, "s", "ig")), "no-row-beyond-position-at-any-commit")
	}
	var lastErr error
	for s := 0; s < nsteps; s++ {
		err, panicked := zzConverge(t)
		zzvrf.Assert(!panicked, "no-panic")
		if panicked {
			return
		}
		lastErr = err
		zzvrf.Assert(zzOpenTx == 0, "every-transaction-closed")
	}
	_ = lastErr
	post := zzFind(&zzCommitted, "s", "ig")
	zzvrf.Assert(zzInv(post), "rows-cover-exactly-the-position")
	// frame: other pairs untouched
	zzvrf.Assert(zzSamePair(zzFind(&zzCommitted, "s", "other"), zzFind(&snap, "s", "other")), "other-integration-same-source-untouched")
	zzvrf.Assert(zzSamePair(zzFind(&zzCommitted, "s2", "ig"), zzFind(&snap, "s2", "ig")), "same-integration-other-source-untouched")
	zzvrf.Assert(zzSamePair(zzFind(&zzCommitted, "s", "ig3"), zzFind(&snap, "s", "ig3")), "shared-table-other-integration-untouched")
	// convergence: with enough steps every remaining cursor row is canonical,
	// the canonical prefix is untouched, and the position moved past the fork
	if nsteps >= k-canon+1 && post != nil {
		for i := range post.cur {
			zzvrf.Assert(zzvrf.BytesEq(post.cur[i].hash, zzH(0, post.cur[i].num)), "recorded-positions-are-canonical")
		}
		zzvrf.Assert(len(post.cur) >= canon, "positions-below-fork-kept")
		if canon > 0 && len(post.cur) >= canon {
			zzvrf.Assert(post.cur[canon-1].num == pre.cur[canon-1].num, "positions-below-fork-untouched")
		}
		if canon > 0 {
			zzvrf.Assert(post.hasRows && post.lo == pre.lo, "rows-below-fork-untouched")
		}
		zzvrf.Reach("converged")
	}
	zzvrf.Reach("end")
}

// ZZ_C02_Faults: a step with symbolic faults at every I/O point (single: at
// most one), then a fault-free retry; compared with a fault-free step from the
// same pre-state on the same frozen chain.
func ZZ_C02_Faults(k, canon, batch, conc, single int) { zzC02Faults(k, canon, batch, conc, single, true) }

// ZZ_C02_FaultsPlain: the same with a data plan whose blocks carry no hashes
// (logs only): a failed partition cannot be mistaken for a reorg, so what a
// step does with a partially loaded batch is visible.
func ZZ_C02_FaultsPlain(k, batch, conc, single int) { zzC02Faults(k, k, batch, conc, single, false) }

func zzC02Faults(k, canon, batch, conc, single int, withHash bool) {
	zzReset()
	zzvrf.Unwind(batch + conc + 3)
	head := zzvrf.U64("head")
	zzvrf.Assume(head > 1 && head < 1<<62)
	src := &zzSource{withHash: withHash, headFixed: true, head: head}
	pre := zzPreState("s", "ig", k, canon)
	zzvrf.Assume(head > pre.cur[k-1].num)
	snap := zzCommitted.clone()

	// reference: fault-free
	t := zzTask(src, "s", "ig", batch, conc, 0, 0, nil)
	refErr, refPanic := zzConverge(t)
	ref := zzCommitted.clone()
	zzvrf.Assert(!refPanic, "no-panic")
	if refPanic {
		return
	}

	// faulty run from the same pre-state
	zzCommitted = snap.clone()
	zzOpenTx, zzCommits = 0, 0
	zzFaults, zzFaultSeen, zzSingle = true, false, single == 1
	zzAfterCommit = func(n int) {
		zzvrf.Assert(zzInv(zzFind(&zzCommitted, "s", "ig")), "no-partial-state-at-any-commit")
	}
	t2 := zzTask(src, "s", "ig", batch, conc, 0, 0, nil)
	err, panicked := zzConverge(t2)
	zzvrf.Assert(!panicked, "no-panic-under-faults")
	if panicked {
		return
	}
	zzvrf.Assert(zzOpenTx == 0, "every-transaction-closed-on-every-exit")
	zzvrf.Assert(zzInv(zzFind(&zzCommitted, "s", "ig")), "no-partial-state-after-failed-step")
	if zzFaultSeen {
		zzvrf.Reach("fault-injected")
	}
	// retry without faults
	zzFaults = false
	if err != nil && zzFaultSeen {
		t3 := zzTask(src, "s", "ig", batch, conc, 0, 0, nil)
		err3, panicked3 := zzConverge(t3)
		zzvrf.Assert(!panicked3, "no-panic-on-retry")
		if panicked3 {
			return
		}
		if refErr == nil {
			zzvrf.Assert(err3 == nil, "retry-completes")
		}
		zzvrf.Assert(zzSamePair(zzFind(&zzCommitted, "s", "ig"), zzFind(&ref, "s", "ig")), "retry-equals-fault-free-step")
	}
	zzvrf.Reach("end")
}

// ZZ_C05_Deps: a dependent integration with ndeps referenced integrations
// whose cursor histories have r1, r2 rows (0 = not started).
func ZZ_C05_Deps(k, ndeps, r1, r2, batch int) {
	zzReset()
	zzvrf.Unwind(batch + 3)
	head := zzvrf.U64("head")
	zzvrf.Assume(head > 1 && head < 1<<62)
	src := &zzSource{withHash: true, headFixed: true, head: head}
	zzPreState("s", "ig", k, k)
	deps := []string{"d1", "d2"}[:ndeps]
	rows := []int{r1, r2}
	var depPairs []*zzPair
	for i, d := range deps {
		if rows[i] > 0 {
			depPairs = append(depPairs, zzPreState("s", d, rows[i], rows[i]))
		} else {
			depPairs = append(depPairs, nil)
		}
	}
	// a dependency of the same name on another source must not count
	zzPreState("s2", "d1", 1, 1)
	t := zzTask(src, "s", "ig", batch, 1, 0, 0, deps)
	err, panicked := zzConverge(t)
	zzvrf.Assert(!panicked, "no-panic")
	if panicked {
		return
	}
	post := zzFind(&zzCommitted, "s", "ig")
	wrote := post != nil && (len(post.insLog) > 0 || len(post.cur) != k)
	allStarted := true
	for _, dp := range depPairs {
		if dp == nil {
			allStarted = false
		}
	}
	if !allStarted {
		zzvrf.Assert(!wrote, "does-nothing-until-every-reference-has-progress")
	}
	if wrote && err == nil && post != nil && len(post.cur) > 0 {
		q := post.cur[len(post.cur)-1].num
		for _, dp := range depPairs {
			if dp != nil {
				zzvrf.Assert(q <= dp.cur[len(dp.cur)-1].num, "never-ahead-of-a-referenced-integration")
			}
		}
		zzvrf.Reach("advanced")
	}
	zzvrf.Reach("end")
}

// ZZ_C05_Moving: the referenced integration moves (forward, or back after its
// own reorg) while the dependent retries inside one step: the dependent's top
// position is orphaned, so its first pass detects the reorg, deletes and
// loops; before each later pass another session commits a new position of the
// referenced integration (READ COMMITTED makes it visible to the open
// transaction). Whatever the step then records must not lie beyond the
// referenced integration's position as of the step's last pass.
func ZZ_C05_Moving(batch int) {
	zzReset()
	zzvrf.Unwind(batch + 3)
	head := zzvrf.U64("head")
	zzvrf.Assume(head > 1 && head < 1<<62)
	src := &zzSource{withHash: true, headFixed: true, head: head}
	pre := zzPreState("s", "ig", 2, 1)
	zzvrf.Assume(head > pre.cur[1].num)
	zzPreState("s", "d1", 1, 1)
	t := zzTask(src, "s", "ig", batch, 1, 0, 0, []string{"d1"})
	passes := 0
	var depNow uint64
	depNow = zzFind(&zzCommitted, "s", "d1").cur[0].num
	zzBeforeLatest = func(tx *zzTx) {
		passes++
		if passes < 2 {
			return
		}
		n := zzvrf.U64("d1.new-position")
		zzvrf.Assume(n > 0 && n < 1<<62)
		h := zzH(0, n)
		for _, db := range []*zzDB{&zzCommitted, &tx.db} {
			if p := zzFind(db, "s", "d1"); p != nil {
				p.cur = []zzCur{{num: n, hash: h}}
			}
		}
		depNow = n
	}
	err, panicked := zzConverge(t)
	zzBeforeLatest = nil
	zzvrf.Assert(!panicked, "no-panic")
	if panicked {
		return
	}
	post := zzFind(&zzCommitted, "s", "ig")
	if err == nil && post != nil && len(post.insLog) > 0 {
		zzvrf.Assert(passes >= 2, "reorg-pass-happened")
		q := post.cur[len(post.cur)-1].num
		zzvrf.Assert(q <= depNow, "never-ahead-of-the-referenced-integration's-current-position")
		for _, n := range post.insLog {
			zzvrf.Assert(n <= depNow, "no-block-processed-beyond-the-referenced-integration")
		}
		zzvrf.Reach("advanced")
	}
	zzvrf.Reach("end")
}

// ZZ_C04_Prune: the periodic pruning of recorded positions (PruneTask keeps
// the newest n positions of every (source, integration) pair). Pairs sharing
// the source, sharing the integration name, or neither, with arbitrary
// (interleaving or far apart) block numbers: every pair keeps exactly its own
// newest min(k, n) positions, so its position and the rows of its table are
// untouched by the other pairs' histories.
func ZZ_C04_Prune(ka, kb, kc, n int) {
	zzReset()
	zzPreState("s", "a", ka, ka)
	zzPreState("s", "b", kb, kb)
	zzPreState("s2", "a", kc, kc)
	snap := zzCommitted.clone()
	// PruneTask runs on the pool: the statement is its own committed session
	tx := &zzTx{db: zzCommitted.clone()}
	zzOpenTx++
	err := PruneTask(context.Background(), tx, n)
	zzvrf.Assert(err == nil, "prune-ok")
	zzvrf.Assert(tx.Commit(context.Background()) == nil, "prune-commits")
	for _, pr := range [][2]string{{"s", "a"}, {"s", "b"}, {"s2", "a"}} {
		before, after := zzFind(&snap, pr[0], pr[1]), zzFind(&zzCommitted, pr[0], pr[1])
		k := len(before.cur)
		want := k
		if n < want {
			want = n
		}
		zzvrf.Assert(len(after.cur) == want, "pair-keeps-its-newest-positions")
		if len(after.cur) != want {
			return
		}
		for i := 0; i < want; i++ {
			zzvrf.Assert(after.cur[want-1-i].num == before.cur[k-1-i].num, "kept-positions-are-the-pair's-newest")
		}
		if k > 0 && n > 0 {
			zzvrf.Assert(after.cur[len(after.cur)-1].num == before.cur[k-1].num, "position-unchanged-by-pruning")
		}
		zzvrf.Assert(after.hasRows == before.hasRows && after.lo == before.lo && after.hi == before.hi, "table-rows-untouched-by-pruning")
	}
	zzvrf.Reach("end")
}

// ZZ_C05_Lost: two steps of ONE dependent task with two referenced
// integrations. Both have recorded one position when the first step runs;
// then the first one loses its only position (its own reorg deleted it, it
// has recorded nothing since) while the other stays ahead. The second step
// must do nothing: a referenced integration without progress holds the
// dependent back whatever an earlier step saw.
func ZZ_C05_Lost(batch int) {
	zzReset()
	zzvrf.Unwind(batch + 3)
	head := zzvrf.U64("head")
	zzvrf.Assume(head > 1 && head < 1<<62)
	src := &zzSource{withHash: true, headFixed: true, head: head}
	zzPreState("s", "ig", 1, 1)
	zzPreState("s", "d1", 1, 1)
	zzPreState("s", "d2", 1, 1)
	t := zzTask(src, "s", "ig", batch, 1, 0, 0, []string{"d1", "d2"})
	_, panicked := zzConverge(t)
	zzvrf.Assert(!panicked, "no-panic")
	if panicked {
		return
	}
	if p := zzFind(&zzCommitted, "s", "d1"); p != nil {
		p.cur = nil
	}
	before := zzFind(&zzCommitted, "s", "ig")
	if before == nil {
		zzvrf.Reach("end")
		return
	}
	nIns, nCur := len(before.insLog), len(before.cur)
	_, panicked = zzConverge(t)
	zzvrf.Assert(!panicked, "no-panic")
	if panicked {
		return
	}
	after := zzFind(&zzCommitted, "s", "ig")
	zzvrf.Assert(after != nil && len(after.insLog) == nIns && len(after.cur) == nCur, "does-nothing-while-a-reference-has-lost-its-progress")
	zzvrf.Reach("end")
}
