package shovel

// pgmodel: Postgres as the task sees it, cut at pgxpool.Pool.Begin / pgx.Tx.
// Written in Go so that the engine interprets it symbolically and the native
// replay compiles it. State per (src_name, ig_name) pair:
//   - the cursor rows of shovel.task_updates, explicit, ascending by num;
//   - the pair's rows in its integration table as an interval lo < block_num <= hi
//     (exact while the row set stays an interval, which is what the invariant
//     says; a statement that would break the shape sets `broken`).
// The predicate of every statement is derived from its SQL TEXT, so an edit
// that drops `and ig_name = $2` or turns >= into > changes the model's
// behaviour and is caught by the assertions.

import (
	"context"
	"errors"

	"github.com/indexsupply/shovel/zzvrf"
	"github.com/jackc/pgx/v5"
	"github.com/jackc/pgx/v5/pgconn"
	"github.com/jackc/pgx/v5/pgxpool"
)

type zzCur struct {
	num  uint64
	hash []byte
}

type zzPair struct {
	src, ig string
	table   string
	cur     []zzCur // ascending
	hasRows bool
	lo, hi  uint64
	broken  bool
	contig  bool     // every insert so far extended the interval by exactly one block
	insLog  []uint64 // ghost: block numbers passed to Insert (this step)
}

type zzDB struct{ pairs []zzPair }

func (d zzDB) clone() zzDB {
	n := zzDB{pairs: make([]zzPair, len(d.pairs))}
	for i, p := range d.pairs {
		q := p
		q.cur = append([]zzCur(nil), p.cur...)
		q.insLog = append([]uint64(nil), p.insLog...)
		n.pairs[i] = q
	}
	return n
}

var (
	zzCommitted zzDB
	zzOpenTx    int
	zzFaults    bool // inject symbolic faults at every I/O point
	zzFaultSeen bool
	zzSingle    bool // at most one fault per step
	zzCommits   int
	zzSQLLog    []string
	zzAfterCommit func(n int) // harness hook: inspect zzCommitted after each successful commit
	zzBeforeLatest func(tx *zzTx) // harness hook: another session commits before the task reads its own position (READ COMMITTED: visible to the open transaction)
)

var zzErrFault = errors.New("injected fault")

func zzFault(point string) bool {
	if !zzFaults || (zzSingle && zzFaultSeen) {
		return false
	}
	if zzvrf.Bool("fault:" + point) {
		zzFaultSeen = true
		zzvrf.Event("FAULT at " + point)
		return true
	}
	return false
}

// ---- SQL text -> statement shape ----

type zzCond struct {
	col string
	op  string
	arg int // $n (1-based); 0 = not a parameter
	any bool // "= ANY($n)"
}

type zzStmt struct {
	kind  string // insert | delete | select-latest | select-dep | select-ref | set | other
	table string
	cols  []string
	conds []zzCond
	// direction of "num" in each "order by" clause, in textual order (true = desc)
	numDesc []bool
	limit1  bool
}

// zzOrders reads the direction of num in every ORDER BY clause of the text.
func zzOrders(t []string) (dirs []bool, limit1 bool) {
	for i := 0; i+1 < len(t); i++ {
		if t[i] == "limit" && t[i+1] == "1" {
			limit1 = true
		}
		if t[i] != "order" || t[i+1] != "by" {
			continue
		}
		for j := i + 2; j < len(t); j++ {
			if t[j] == "limit" || t[j] == ")" || t[j] == ";" || t[j] == "order" {
				break
			}
			if t[j] == "num" {
				dirs = append(dirs, j+1 < len(t) && t[j+1] == "desc")
				break
			}
		}
	}
	return
}

func zzIsOp(c byte) bool { return c == '>' || c == '<' || c == '=' || c == '!' }

func zzTokens(sql string) []string {
	var toks []string
	cur := ""
	flush := func() {
		if cur != "" {
			toks = append(toks, cur)
			cur = ""
		}
	}
	for i := 0; i < len(sql); i++ {
		c := sql[i]
		switch {
		case c == ' ' || c == '\n' || c == '\t' || c == '\r':
			flush()
		case c == '(' || c == ')' || c == ',' || c == ';':
			flush()
			toks = append(toks, string(c))
		case zzIsOp(c):
			flush()
			op := string(c)
			for i+1 < len(sql) && zzIsOp(sql[i+1]) {
				i++
				op += string(sql[i])
			}
			toks = append(toks, op)
		default:
			if c >= 'A' && c <= 'Z' {
				c += 32
			}
			cur += string(c)
		}
	}
	flush()
	return toks
}

func zzArgNum(tok string) int {
	if len(tok) < 2 || tok[0] != '$' {
		return 0
	}
	n := 0
	for i := 1; i < len(tok); i++ {
		n = n*10 + int(tok[i]-'0')
	}
	return n
}

func zzParseWhere(toks []string, i int) []zzCond {
	var cs []zzCond
	for i+2 < len(toks) {
		c := zzCond{col: toks[i], op: toks[i+1]}
		j := i + 2
		if toks[j] == "any" && j+2 < len(toks) {
			c.any = true
			c.arg = zzArgNum(toks[j+2])
			j += 4
		} else {
			c.arg = zzArgNum(toks[j])
			j++
		}
		cs = append(cs, c)
		if j < len(toks) && toks[j] == "and" {
			i = j + 1
			continue
		}
		break
	}
	return cs
}

func zzParseSQL(sql string) zzStmt {
	t := zzTokens(sql)
	st := zzStmt{kind: "other"}
	if len(t) < 3 {
		return st
	}
	switch {
	case t[0] == "insert" && t[1] == "into":
		st.kind, st.table = "insert", t[2]
		for i := 4; i < len(t) && t[i] != ")"; i++ {
			if t[i] != "," {
				st.cols = append(st.cols, t[i])
			}
		}
	case t[0] == "delete" && t[1] == "from":
		st.kind, st.table = "delete", t[2]
		if len(t) > 4 && t[3] == "where" {
			st.conds = zzParseWhere(t, 4)
		}
	case t[0] == "with" && t[1] == "latest":
		st.kind = "select-dep"
		for i := range t {
			if t[i] == "where" {
				st.conds = zzParseWhere(t, i+1)
				break
			}
		}
	case t[0] == "select" && t[1] == "true":
		st.kind = "select-ref"
		for i := range t {
			if t[i] == "from" {
				st.table = t[i+1]
			}
		}
	case t[0] == "select":
		st.kind = "select-latest"
		for i := range t {
			if t[i] == "from" && st.table == "" {
				st.table = t[i+1]
			}
			if t[i] == "where" {
				st.conds = zzParseWhere(t, i+1)
				break
			}
		}
	case t[0] == "set":
		st.kind = "set"
	}
	st.numDesc, st.limit1 = zzOrders(t)
	return st
}

// ---- transaction ----

type zzTx struct {
	db     zzDB
	closed bool
	id     int
}

var zzTxSeq int

func zzPoolBegin(p *pgxpool.Pool, ctx context.Context) (pgx.Tx, error) {
	if zzFault("begin") {
		return nil, zzErrFault
	}
	zzTxSeq++
	zzOpenTx++
	return &zzTx{db: zzCommitted.clone(), id: zzTxSeq}, nil
}

// zzPoolExec: a statement issued on the pool itself runs in its own
// session and commits immediately.
// ZZPoolExecHook: a harness of another package (the dashboard's) records the
// statements its handlers issue on the pool instead of running them.
var ZZPoolExecHook func(sql string, args []any) error

func zzPoolExec(p *pgxpool.Pool, ctx context.Context, sql string, args ...any) (pgconn.CommandTag, error) {
	if ZZPoolExecHook != nil {
		return pgconn.CommandTag{}, ZZPoolExecHook(sql, args)
	}
	if zzParseSQL(sql).kind == "set" {
		zzSQLLog = append(zzSQLLog, sql)
		return pgconn.CommandTag{}, nil
	}
	tx := &zzTx{db: zzCommitted.clone()}
	tag, err := tx.Exec(ctx, sql, args...)
	if err != nil {
		return tag, err
	}
	zzCommitted = tx.db.clone()
	zzCommits++
	zzvrf.Event("AUTOCOMMIT")
	if zzAfterCommit != nil {
		zzAfterCommit(zzCommits)
	}
	return tag, nil
}

func (tx *zzTx) Begin(ctx context.Context) (pgx.Tx, error) { panic("nested tx not modelled") }

func (tx *zzTx) Commit(ctx context.Context) error {
	if tx.closed {
		return pgx.ErrTxClosed
	}
	tx.closed = true
	zzOpenTx--
	if zzFault("commit") {
		return zzErrFault
	}
	zzCommitted = tx.db.clone()
	zzCommits++
	zzvrf.Event("COMMIT")
	if zzAfterCommit != nil {
		zzAfterCommit(zzCommits)
	}
	return nil
}

func (tx *zzTx) Rollback(ctx context.Context) error {
	if tx.closed {
		return pgx.ErrTxClosed
	}
	tx.closed = true
	zzOpenTx--
	return nil
}

// CopyFrom is reached when a real dig.Integration is the destination (C20's
// schedule harness): rows are drained and counted, their content is C11's subject.
func (tx *zzTx) CopyFrom(ctx context.Context, tableName pgx.Identifier, columnNames []string, rowSrc pgx.CopyFromSource) (int64, error) {
	if tx.closed {
		return 0, pgx.ErrTxClosed
	}
	n := int64(0)
	for rowSrc.Next() {
		n++
	}
	return n, nil
}
func (tx *zzTx) SendBatch(ctx context.Context, b *pgx.Batch) pgx.BatchResults { panic("unmodelled") }
func (tx *zzTx) LargeObjects() pgx.LargeObjects                               { panic("unmodelled") }
func (tx *zzTx) Prepare(ctx context.Context, name, sql string) (*pgconn.StatementDescription, error) {
	panic("unmodelled")
}
func (tx *zzTx) Query(ctx context.Context, sql string, args ...any) (pgx.Rows, error) {
	panic("unmodelled")
}
func (tx *zzTx) Conn() *pgx.Conn { return nil }

func zzStr(v any) (string, bool) {
	s, ok := v.(string)
	return s, ok
}

func zzU64(v any) (uint64, bool) {
	switch x := v.(type) {
	case uint64:
		return x, true
	case int:
		return uint64(x), true
	case int64:
		return uint64(x), true
	}
	return 0, false
}

// zzPairMatches evaluates the name conjuncts of a where clause for a pair.
func zzPairMatches(p *zzPair, conds []zzCond, args []any) bool {
	for _, c := range conds {
		if c.arg == 0 || c.arg > len(args) {
			continue
		}
		switch c.col {
		case "src_name":
			s, _ := zzStr(args[c.arg-1])
			if c.op == "=" && p.src != s {
				return false
			}
		case "ig_name":
			if c.any {
				list, _ := args[c.arg-1].([]string)
				found := false
				for _, s := range list {
					if s == p.ig {
						found = true
					}
				}
				if !found {
					return false
				}
				continue
			}
			s, _ := zzStr(args[c.arg-1])
			if c.op == "=" && p.ig != s {
				return false
			}
		}
	}
	return true
}

func zzCmp(op string, a, b uint64) bool {
	switch op {
	case ">=":
		return a >= b
	case ">":
		return a > b
	case "=":
		return a == b
	case "<=":
		return a <= b
	case "<":
		return a < b
	}
	panic("unmodelled comparison operator " + op)
}

func (tx *zzTx) Exec(ctx context.Context, sql string, args ...any) (pgconn.CommandTag, error) {
	if tx.closed {
		return pgconn.CommandTag{}, pgx.ErrTxClosed
	}
	st := zzParseSQL(sql)
	zzSQLLog = append(zzSQLLog, sql)
	if zzFault("exec:" + st.kind + ":" + st.table) {
		return pgconn.CommandTag{}, zzErrFault
	}
	if st.kind == "delete" && st.table == "shovel.task_updates" && zzHasTok(sql, "row_number") {
		tx.pruneCursorRows(sql, args)
		zzvrf.Event("PRUNE shovel.task_updates")
		return pgconn.CommandTag{}, nil
	}
	switch st.kind {
	case "insert":
		if st.table != "shovel.task_updates" {
			panic("unmodelled insert into " + st.table)
		}
		var src, ig string
		var num uint64
		var hash []byte
		for i, c := range st.cols {
			switch c {
			case "src_name":
				src, _ = zzStr(args[i])
			case "ig_name":
				ig, _ = zzStr(args[i])
			case "num":
				num, _ = zzU64(args[i])
			case "hash":
				hash, _ = args[i].([]byte)
			}
		}
		p := tx.pair(src, ig)
		// unique index (ig_name, src_name, num)
		for _, c := range p.cur {
			if c.num == num {
				return pgconn.CommandTag{}, errors.New("duplicate key value violates unique constraint task_src_name_num_idx")
			}
		}
		// keep ascending order
		pos := len(p.cur)
		for pos > 0 && p.cur[pos-1].num > num {
			pos--
		}
		p.cur = append(p.cur, zzCur{})
		copy(p.cur[pos+1:], p.cur[pos:])
		p.cur[pos] = zzCur{num: num, hash: hash}
		zzvrf.Event("INSERT task_updates")
	case "delete":
		for i := range tx.db.pairs {
			p := &tx.db.pairs[i]
			if !zzPairMatches(p, st.conds, args) {
				continue
			}
			for _, c := range st.conds {
				if c.col != "num" && c.col != "block_num" {
					continue
				}
				n, _ := zzU64(args[c.arg-1])
				if st.table == "shovel.task_updates" && c.col == "num" {
					var keep []zzCur
					for _, r := range p.cur {
						if !zzCmp(c.op, r.num, n) {
							keep = append(keep, r)
						}
					}
					p.cur = keep
				} else if st.table == p.table && c.col == "block_num" {
					if !p.hasRows {
						continue
					}
					switch c.op {
					case ">=":
						if n <= p.lo+1 {
							p.hasRows = false
						} else if n <= p.hi {
							p.hi = n - 1
						}
					case ">":
						if n <= p.lo {
							p.hasRows = false
						} else if n < p.hi {
							p.hi = n
						}
					default:
						p.broken = true
					}
				}
			}
			// a delete without a number bound removes everything that matches
			hasNum := false
			for _, c := range st.conds {
				if c.col == "num" || c.col == "block_num" {
					hasNum = true
				}
			}
			if !hasNum {
				if st.table == "shovel.task_updates" {
					p.cur = nil
				} else if st.table == p.table {
					p.hasRows = false
				}
			}
		}
		zzvrf.Event("DELETE " + st.table)
	case "set":
	default:
		panic("unmodelled statement: " + sql)
	}
	return pgconn.CommandTag{}, nil
}

func (tx *zzTx) pair(src, ig string) *zzPair {
	for i := range tx.db.pairs {
		if tx.db.pairs[i].src == src && tx.db.pairs[i].ig == ig {
			return &tx.db.pairs[i]
		}
	}
	tx.db.pairs = append(tx.db.pairs, zzPair{src: src, ig: ig, table: "t_" + ig, contig: true})
	return &tx.db.pairs[len(tx.db.pairs)-1]
}

// insertBlocks is what the destination stub does inside the transaction.
func (tx *zzTx) insertBlocks(src, ig string, nums []uint64) error {
	if tx.closed {
		return pgx.ErrTxClosed
	}
	if zzFault("copy") {
		return zzErrFault
	}
	p := tx.pair(src, ig)
	for _, n := range nums {
		p.insLog = append(p.insLog, n)
		if !p.hasRows {
			p.hasRows, p.lo, p.hi = true, n-1, n
			continue
		}
		p.contig = zzvrf.And(p.contig, n == p.hi+1)
		p.hi = n
	}
	zzvrf.Event("COPY rows")
	return nil
}

type zzRowRes struct {
	vals []any
	err  error
}

func (r zzRowRes) Scan(dest ...any) error {
	if r.err != nil {
		return r.err
	}
	for i := range dest {
		switch d := dest[i].(type) {
		case *uint64:
			*d = r.vals[i].(uint64)
		case *[]byte:
			*d = r.vals[i].([]byte)
		case *bool:
			*d = r.vals[i].(bool)
		default:
			panic("unmodelled scan destination")
		}
	}
	return nil
}

var zzRefMember func(table string, v []byte) bool

func (tx *zzTx) QueryRow(ctx context.Context, sql string, args ...any) pgx.Row {
	if tx.closed {
		return zzRowRes{err: pgx.ErrTxClosed}
	}
	st := zzParseSQL(sql)
	zzSQLLog = append(zzSQLLog, sql)
	if zzFault("query:" + st.kind) {
		return zzRowRes{err: zzErrFault}
	}
	if st.kind == "select-latest" && zzBeforeLatest != nil {
		zzBeforeLatest(tx)
	}
	switch st.kind {
	case "select-latest":
		// select num, hash from shovel.task_updates where <names> order by num desc limit 1
		var best *zzCur
		if len(st.numDesc) != 1 || !st.limit1 {
			panic("unmodelled ordering of the position query: " + sql)
		}
		for i := range tx.db.pairs {
			p := &tx.db.pairs[i]
			if !zzPairMatches(p, st.conds, args) {
				continue
			}
			for j := range p.cur {
				// order by num desc|asc limit 1 (direction read from the text)
				if best == nil || (st.numDesc[0] && p.cur[j].num > best.num) || (!st.numDesc[0] && p.cur[j].num < best.num) {
					best = &p.cur[j]
				}
			}
		}
		if best == nil {
			return zzRowRes{err: pgx.ErrNoRows}
		}
		return zzRowRes{vals: []any{best.num, best.hash}}
	case "select-dep":
		// per matching ig: its newest cursor row; of those the one with the smallest num
		var best *zzCur
		var count uint64
		if len(st.numDesc) != 2 || !st.limit1 {
			panic("unmodelled ordering of the dependency query: " + sql)
		}
		for i := range tx.db.pairs {
			p := &tx.db.pairs[i]
			if !zzPairMatches(p, st.conds, args) || len(p.cur) == 0 {
				continue
			}
			count++
			// distinct on (ig_name) ... order by ig_name, num <dir>: the first row per integration
			top := &p.cur[len(p.cur)-1] // cursor rows are ascending
			if !st.numDesc[0] {
				top = &p.cur[0]
			}
			// outer: order by num <dir> limit 1
			if best == nil || (!st.numDesc[1] && top.num < best.num) || (st.numDesc[1] && top.num > best.num) {
				best = top
			}
		}
		if best == nil {
			return zzRowRes{err: pgx.ErrNoRows}
		}
		// third column (if selected): number of referenced integrations with progress
		return zzRowRes{vals: []any{best.num, best.hash, count}}
	case "select-ref":
		v, _ := args[0].([]byte)
		if zzRefMember != nil && zzRefMember(st.table, v) {
			return zzRowRes{vals: []any{true}}
		}
		return zzRowRes{err: pgx.ErrNoRows}
	}
	panic("unmodelled query: " + sql)
}

func zzHasTok(sql, w string) bool {
	for _, t := range zzTokens(sql) {
		if t == w {
			return true
		}
	}
	return false
}

// pruneCursorRows models
//   delete from shovel.task_updates where (<outer cols>) not in (
//     select ... from (select ..., row_number() over(partition by <P> order by num <dir>) as rn
//       from shovel.task_updates) as s where rn <op> $k)
// The outer tuple columns, the partition columns, the order direction and the
// rn comparison are read from the statement text.
func (tx *zzTx) pruneCursorRows(sql string, args []any) {
	t := zzTokens(sql)
	idx := func(w string, from int) int {
		for i := from; i < len(t); i++ {
			if t[i] == w {
				return i
			}
		}
		return -1
	}
	// outer tuple: "where ( a , b , c ) not in"
	w := idx("where", 0)
	if w < 0 || t[w+1] != "(" {
		panic("unmodelled prune statement: " + sql)
	}
	var outer []string
	i := w + 2
	for ; t[i] != ")"; i++ {
		if t[i] != "," {
			outer = append(outer, t[i])
		}
	}
	if t[i+1] != "not" || t[i+2] != "in" {
		panic("unmodelled prune statement: " + sql)
	}
	// partition by ... order by num dir
	pb := idx("partition", 0)
	if pb < 0 || t[pb+1] != "by" {
		panic("unmodelled prune statement: " + sql)
	}
	var part []string
	j := pb + 2
	for ; t[j] != "order"; j++ {
		if t[j] != "," {
			part = append(part, t[j])
		}
	}
	if t[j+1] != "by" || t[j+2] != "num" {
		panic("unmodelled prune statement: " + sql)
	}
	desc := t[j+3] == "desc"
	// where rn <op> $k  (the last "rn")
	rn := -1
	for k := range t {
		if t[k] == "rn" {
			rn = k
		}
	}
	if rn < 0 || !zzIsOp(t[rn+1][0]) {
		panic("unmodelled prune statement: " + sql)
	}
	op := t[rn+1]
	lim, ok := zzU64(args[zzArgNum(t[rn+2])-1])
	if !ok {
		panic("unmodelled prune argument")
	}
	type ent struct {
		pi, ci int
	}
	var all []ent
	for pi := range tx.db.pairs {
		for ci := range tx.db.pairs[pi].cur {
			all = append(all, ent{pi, ci})
		}
	}
	colEq := func(cols []string, a, b ent) bool {
		pa, pb := &tx.db.pairs[a.pi], &tx.db.pairs[b.pi]
		for _, c := range cols {
			switch c {
			case "src_name":
				if pa.src != pb.src {
					return false
				}
			case "ig_name":
				if pa.ig != pb.ig {
					return false
				}
			case "num":
				if pa.cur[a.ci].num != pb.cur[b.ci].num {
					return false
				}
			default:
				panic("unmodelled prune column " + c)
			}
		}
		return true
	}
	// rn of an entry = 1 + number of entries of its partition that come before it
	kept := make([]bool, len(all))
	for x, a := range all {
		var before uint64
		na := tx.db.pairs[a.pi].cur[a.ci].num
		for y, b := range all {
			if x == y || !colEq(part, a, b) {
				continue
			}
			nb := tx.db.pairs[b.pi].cur[b.ci].num
			if (desc && nb > na) || (!desc && nb < na) || (nb == na && y < x) {
				before++
			}
		}
		kept[x] = zzCmp(op, before+1, lim)
	}
	// a row survives iff its outer tuple equals the outer tuple of some kept row
	survive := make([]bool, len(all))
	for x, a := range all {
		for y, b := range all {
			if kept[y] && colEq(outer, a, b) {
				survive[x] = true
			}
		}
	}
	for pi := range tx.db.pairs {
		var keep []zzCur
		for x, a := range all {
			if a.pi == pi && survive[x] {
				keep = append(keep, tx.db.pairs[pi].cur[a.ci])
			}
		}
		tx.db.pairs[pi].cur = keep
	}
}
