package shovel

import (
	"context"
	"time"

	"github.com/indexsupply/shovel/shovel/config"
	"github.com/indexsupply/shovel/wctx"
	"github.com/indexsupply/shovel/wpg"
	"github.com/indexsupply/shovel/zzvrf"
)

var zzIgNames = []string{"a", "b"}
var zzSrcRefNames = []string{"s1", "s2", "missing"}

var zzLean bool // fewer case splits when four integrations are present

func zzCfgIntegration(tag string) config.Integration {
	ig := config.Integration{
		Name:    zzIgNames[zzvrf.Pick(tag+".name", 2)],
		Enabled: true,
		Table:   wpg.Table{Name: "t_" + tag},
	}
	nrefs := 1
	if !zzLean || tag[0] == 'd' {
		ig.Enabled = zzvrf.Pick(tag+".enabled", 2) == 1
	}
	if !zzLean {
		nrefs = 1 + zzvrf.Pick(tag+".nrefs", 2)
	}
	first := zzvrf.Pick(tag+".ref", 3)
	for i := 0; i < nrefs; i++ {
		// an integration does not list the same source twice (assumption)
		ref := config.Source{Name: zzSrcRefNames[(first+i)%3], Start: zzvrf.U64(tag + ".start"), Stop: zzvrf.U64(tag + ".stop")}
		ig.Sources = append(ig.Sources, ref)
	}
	return ig
}

func zzCfgSource(name, tag string) config.Source {
	return config.Source{
		Name:         name,
		ChainID:      zzvrf.U64(tag + ".chain_id"),
		URLs:         []string{"http://" + tag},
		PollDuration: time.Duration(1+len(tag)%3) * time.Second,
		Concurrency:  3 * zzvrf.Pick(tag+".concurrency", 2), // 0 = unset
		BatchSize:    zzBatch(tag),
	}
}

func zzBatch(tag string) int {
	b := zzvrf.Int(tag + ".batch_size") // 0 or negative = unset
	zzvrf.Assume(b >= -1 && b <= 1000)
	return b
}

// ZZ_C20_Load: loadTasks over a file/database configuration mix.
//   nf, nd: number of file / database integrations (0..2 each)
//   srcMode: 0: s1 in file, s2 in db; 1: both in file; 2: s1 in file and in db (clash), s2 in db
func ZZ_C20_Load(nf, nd, srcMode int) {
	zzReset()
	// srcMode >= 10: names that contain separators, chosen so that distinct
	// (source, integration) pairs agree once joined with '-' ("s1"+"x-a" and "s1-x"+"a")
	s1, s2 := "s1", "s2"
	zzIgNames, zzSrcRefNames = []string{"a", "b"}, []string{"s1", "s2", "missing"}
	if srcMode >= 10 {
		srcMode -= 10
		s2 = "s1-x"
		zzIgNames, zzSrcRefNames = []string{"a", "x-a"}, []string{"s1", "s1-x", "missing"}
	}
	zzLean = nf+nd > 2
	var conf config.Root
	var file, db []config.Integration
	for i := 0; i < nf; i++ {
		file = append(file, zzCfgIntegration("file"+string(rune('0'+i))))
	}
	for i := 0; i < nd; i++ {
		db = append(db, zzCfgIntegration("db"+string(rune('0'+i))))
	}
	// names within one origin are distinct (the file is a list the user wrote; the table has a key)
	if nf == 2 && file[0].Name == file[1].Name {
		zzvrf.Reach("outside-domain")
		return
	}
	if nd == 2 && db[0].Name == db[1].Name {
		zzvrf.Reach("outside-domain")
		return
	}
	conf.Integrations = file
	config.ZZDBIntegrations = db
	srcs := map[string]config.Source{}
	switch srcMode {
	case 0:
		f1, d2 := zzCfgSource(s1, "f.s1"), zzCfgSource(s2, "d.s2")
		conf.Sources, config.ZZDBSources = []config.Source{f1}, []config.Source{d2}
		srcs[s1], srcs[s2] = f1, d2
	case 1:
		f1, f2 := zzCfgSource(s1, "f.s1"), zzCfgSource(s2, "f.s2")
		conf.Sources, config.ZZDBSources = []config.Source{f1, f2}, nil
		srcs[s1], srcs[s2] = f1, f2
	default:
		f1, d1, d2 := zzCfgSource(s1, "f.s1"), zzCfgSource(s1, "d.s1"), zzCfgSource(s2, "d.s2")
		conf.Sources, config.ZZDBSources = []config.Source{f1}, []config.Source{d1, d2}
		srcs[s1], srcs[s2] = f1, d2 // the file wins the clash
	}
	config.ZZDBErr = nil

	// expected: merged integrations, file wins on a name clash
	merged := map[string]config.Integration{}
	for _, ig := range db {
		merged[ig.Name] = ig
	}
	for _, ig := range file {
		merged[ig.Name] = ig
	}
	type want struct {
		src, ig     string
		start, stop uint64
	}
	var wants []want
	unknown := false
	for _, name := range zzIgNames {
		ig, ok := merged[name]
		if !ok || !ig.Enabled {
			continue
		}
		for _, ref := range ig.Sources {
			if _, ok := srcs[ref.Name]; !ok {
				unknown = true
			}
			wants = append(wants, want{ref.Name, ig.Name, ref.Start, ref.Stop})
		}
	}
	var tasks []*Task
	var err error
	panicked := false
	func() {
		defer func() {
			if r := recover(); r != nil {
				panicked = true
			}
		}()
		tasks, err = loadTasks(context.Background(), nil, conf)
	}()
	zzvrf.Assert(!panicked, "no-panic")
	if panicked {
		return
	}
	if unknown {
		zzvrf.Assert(err != nil && len(tasks) == 0, "unknown-source-is-a-startup-error")
		zzvrf.Reach("end")
		return
	}
	zzvrf.Assert(err == nil, "valid-mix-loads")
	if err != nil {
		return
	}
	zzvrf.Assert(len(tasks) == len(wants), "exactly-one-task-per-enabled-integration-and-source")
	for _, w := range wants {
		n := 0
		for _, t := range tasks {
			if t.srcName != w.src || t.destConfig.Name != w.ig {
				continue
			}
			n++
			sc := srcs[w.src]
			zzvrf.Assert(t.start == w.start && t.stop == w.stop, "task-carries-the-reference's-range")
			zzvrf.Assert(t.srcChainID == sc.ChainID, "task-carries-the-source's-chain-id")
			zzvrf.Assert(t.pollDuration == sc.PollDuration, "task-carries-the-source's-poll-duration")
			wantB, wantC := 1, 1
			if sc.BatchSize > 0 {
				wantB = sc.BatchSize
			}
			if sc.Concurrency > 0 {
				wantC = sc.Concurrency
			}
			zzvrf.Assert(t.batchSize == wantB && t.concurrency == wantC && len(t.dests) == wantC, "task-carries-the-source's-batch-and-concurrency")
			// the names the rows are stamped with (C04) are the task's own
			zzvrf.Assert(wctx.SrcName(t.ctx) == t.srcName, "context-source-name-is-the-task's")
			zzvrf.Assert(wctx.IGName(t.ctx) == t.destConfig.Name, "context-integration-name-is-the-task's")
			zzvrf.Assert(wctx.ChainID(t.ctx) == t.srcChainID, "context-chain-id-is-the-task's")
			zzvrf.Assert(merged[w.ig].Table.Name == t.destConfig.Table.Name, "file-entry-wins-a-name-clash")
		}
		zzvrf.Assert(n == 1, "each-pair-exactly-once")
	}
	zzvrf.Reach("end")
}
