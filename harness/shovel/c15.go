package shovel

import (
	"context"
	"sync"

	"github.com/indexsupply/shovel/dig"
	"github.com/indexsupply/shovel/eth"
	"github.com/indexsupply/shovel/shovel/config"
	"github.com/indexsupply/shovel/wctx"
	"github.com/indexsupply/shovel/wpg"
	"github.com/indexsupply/shovel/zzvrf"
	"github.com/jackc/pgx/v5"
	"github.com/jackc/pgx/v5/pgconn"
)

// zzSQLRec records every SQL text it is handed (parameters are not text).
type zzSQLRec struct {
	texts []string
}

func (c *zzSQLRec) CopyFrom(ctx context.Context, t pgx.Identifier, cols []string, src pgx.CopyFromSource) (int64, error) {
	n := int64(0)
	for src.Next() {
		n++
	}
	return n, nil // identifiers handed to COPY are quoted by pgx: counted as parameters
}
func (c *zzSQLRec) Exec(ctx context.Context, sql string, args ...any) (pgconn.CommandTag, error) {
	c.texts = append(c.texts, sql)
	return pgconn.CommandTag{}, nil
}

type zzOneRow struct{}

func (zzOneRow) Scan(dest ...any) error {
	if len(dest) == 1 {
		if b, ok := dest[0].(*bool); ok {
			*b = true // the referenced table contains the value
			return nil
		}
	}
	return pgx.ErrNoRows
}

func (c *zzSQLRec) QueryRow(ctx context.Context, sql string, args ...any) pgx.Row {
	c.texts = append(c.texts, sql)
	return zzOneRow{}
}
func (c *zzSQLRec) Query(ctx context.Context, sql string, args ...any) (pgx.Rows, error) {
	c.texts = append(c.texts, sql)
	config.ZZPendingColumns(nil)
	return nil, nil
}

func zzSafeByte(c byte) bool {
	return zzvrf.Or(zzvrf.Or(zzvrf.And(c >= 'a', c <= 'z'), zzvrf.And(c >= 'A', c <= 'Z')), zzvrf.Or(zzvrf.And(c >= '0', c <= '9'), zzvrf.Or(c == '_', c == '-')))
}

// skeleton configuration exercising every SQL text builder
func zzSkeleton() config.Root {
	refd := config.Integration{Name: "refd", Enabled: true, Sources: []config.Source{{Name: "s1"}},
		Table: wpg.Table{Name: "tr", Columns: []wpg.Column{{Name: "addr", Type: "bytea"}}},
		Block: []dig.BlockData{{Name: "log_addr", Column: "addr"}},
		Event: dig.Event{Name: "R", Type: "event", Inputs: []dig.Input{{Name: "x", Type: "uint256"}}}}
	refd.Event.Inputs[0].Column = ""
	main := config.Integration{Name: "main", Enabled: true, Sources: []config.Source{{Name: "s1"}},
		Table: wpg.Table{Name: "tm",
			Columns: []wpg.Column{{Name: "c_a", Type: "bytea"}, {Name: "c_x", Type: "numeric"}, {Name: "log_addr", Type: "bytea"}, {Name: "c_y", Type: "bytea"}},
			Unique:  [][]string{{"c_a", "c_x"}},
			Index:   [][]string{{"log_addr"}, {"c_x DESC"}}},
		Notification: dig.Notification{Columns: []string{"c_a"}},
		Block:        []dig.BlockData{{Name: "log_addr", Column: "log_addr", Filter: dig.Filter{Op: "contains", Ref: dig.Ref{Integration: "refd", Column: "addr"}}}},
		Event: dig.Event{Name: "E", Type: "event", Inputs: []dig.Input{
			{Name: "a", Type: "address", Indexed: true, Column: "c_a", Filter: dig.Filter{Op: "contains", Ref: dig.Ref{Integration: "refd", Column: "addr"}}},
			{Name: "t", Type: "tuple", Components: []dig.Input{
				{Name: "x", Type: "bytes32", Column: "c_x", Filter: dig.Filter{Op: "contains", Ref: dig.Ref{Integration: "refd", Column: "addr"}}},
				{Name: "u", Type: "tuple", Components: []dig.Input{
					{Name: "y", Type: "bytes32", Column: "c_y", Filter: dig.Filter{Op: "contains", Ref: dig.Ref{Integration: "refd", Column: "addr"}}},
				}},
			}},
		}}}
	return config.Root{Sources: []config.Source{{Name: "s1", ChainID: 1, URLs: []string{"http://n"}}}, Integrations: []config.Integration{refd, main}}
}

const zzNPos = 22

// zzInject appends suffix to configuration string position pos.
func zzInject(conf *config.Root, pos int, sfx string) string {
	m := &conf.Integrations[len(conf.Integrations)-1]
	switch pos {
	case 0:
		m.Name += sfx
		return "integration name"
	case 1:
		m.Table.Name += sfx
		return "table name"
	case 2: // column name (tied to the input bound to it, the unique list and the notification)
		m.Table.Columns[0].Name += sfx
		m.Event.Inputs[0].Column += sfx
		m.Notification.Columns[0] += sfx
		m.Table.Unique[0][0] += sfx
		return "column name"
	case 3:
		m.Table.Columns[0].Type += sfx
		return "column type"
	case 4:
		m.Notification.Columns[0] += sfx
		return "notification column"
	case 5:
		m.Event.Inputs[0].Filter.Ref.Column += sfx
		return "input filter_ref column"
	case 6:
		m.Event.Inputs[0].Filter.Ref.Table += sfx
		return "input filter_ref table"
	case 7:
		m.Block[0].Filter.Ref.Column += sfx
		return "block filter_ref column"
	case 8:
		m.Block[0].Filter.Ref.Table += sfx
		return "block filter_ref table"
	case 9:
		m.Event.Inputs[1].Components[0].Filter.Ref.Column += sfx
		return "nested component filter_ref column"
	case 10:
		m.Event.Inputs[1].Components[0].Filter.Ref.Table += sfx
		return "nested component filter_ref table"
	case 11:
		m.Table.Unique[0][1] += sfx
		return "unique list entry"
	case 12:
		m.Table.Index[0][0] += sfx
		return "index list entry"
	case 13:
		conf.Sources[0].Name += sfx
		conf.Integrations[0].Sources[0].Name += sfx
		m.Sources[0].Name += sfx
		return "source name"
	case 14:
		m.Event.Name += sfx
		return "event name"
	case 15:
		m.Event.Inputs[0].Name += sfx
		return "input name"
	case 16:
		m.Block[0].Name += sfx
		return "block field name"
	case 17:
		m.Event.Inputs[0].Filter.Op += sfx
		return "filter operator"
	case 18:
		m.Event.Inputs[0].Filter.Arg = []string{"0x00" + sfx}
		return "filter argument"
	case 20:
		m.Event.Inputs[1].Components[1].Components[0].Filter.Ref.Column += sfx
		return "component nested two tuples deep: filter_ref column"
	case 21:
		m.Event.Inputs[1].Components[1].Components[0].Filter.Ref.Table += sfx
		return "component nested two tuples deep: filter_ref table"
	case 19:
		m.Event.Inputs[1].Components[0].Column += sfx
		m.Table.Columns[1].Name += sfx
		m.Table.Unique[0][1] += sfx
		return "nested component column"
	}
	return ""
}

// ZZ_C15_Inject: one hostile byte appended to configuration position pos.
//   path 0: file configuration (ValidateFix); path 1: dashboard submission
//   (CheckUserInput on the submitted integration only, as SaveIntegration does)
//   disabled 1: the integration carrying the hostile string has enabled:false
//   (never loaded as a task, but its table is still created and migrated)
func ZZ_C15_Inject(pos, path, disabled int) {
	zzReset()
	c := zzvrf.U8("hostile-byte")
	conf := zzSkeleton()
	if disabled == 1 {
		conf.Integrations[1].Enabled = false
	}
	if disabled == 2 {
		// an earlier, harmless integration writes to the same table as the
		// one carrying the hostile string (the table definition is their union)
		sharer := config.Integration{Name: "sharer", Enabled: true, Sources: []config.Source{{Name: "s1"}},
			Table: wpg.Table{Name: "tm", Columns: []wpg.Column{{Name: "c_a", Type: "bytea"}}},
			Event: dig.Event{Name: "S", Type: "event", Inputs: []dig.Input{{Name: "a", Type: "address", Indexed: true, Column: "c_a"}}}}
		conf.Integrations = []config.Integration{conf.Integrations[0], sharer, conf.Integrations[1]}
	}
	what := zzInject(&conf, pos, string([]byte{c}))
	zzvrf.Event("position: " + what)
	var verr error
	if path == 0 {
		verr = config.ValidateFix(&conf)
	} else {
		// the dashboard stores the referenced integration through the file path
		// and the submitted one after CheckUserInput only
		filePart := config.Root{Sources: conf.Sources, Integrations: conf.Integrations[:1]}
		if err := config.ValidateFix(&filePart); err != nil {
			zzvrf.Reach("end")
			return
		}
		conf.Integrations[0] = filePart.Integrations[0]
		verr = config.CheckUserInput(config.Root{Integrations: conf.Integrations[1:]})
	}
	if verr != nil {
		zzvrf.Reach("rejected")
		zzvrf.Reach("end")
		return
	}
	zzvrf.Reach("accepted")
	rec := &zzSQLRec{}
	ctx := wctx.WithSrcName(context.Background(), conf.Sources[0].Name)
	// schema
	for _, stmt := range config.DDL(conf) {
		rec.texts = append(rec.texts, stmt)
	}
	_ = config.Migrate(ctx, rec, conf)
	if disabled >= 1 {
		// a disabled integration is not loaded as a task: only the schema
		// statements above are built from it (shared-table variant: only they are looked at)
		zzvrf.Assert(len(rec.texts) > 2, "sql-builders-exercised")
		safe := zzSafeByte(c)
		for _, s := range rec.texts {
			zzvrf.Assert(zzvrf.Implies(zzvrf.TextDependsOn(s, c), safe), "only-identifier-characters-reach-sql-text:"+what)
		}
		zzvrf.Reach("end")
		return
	}
	// task construction (application_name)
	zzSQLLog = nil
	m := conf.Integrations[1]
	func() {
		defer func() { recover() }()
		NewTask(WithSrcName(conf.Sources[0].Name), WithIntegration(m), WithContext(ctx))
	}()
	rec.texts = append(rec.texts, zzSQLLog...)
	// row builder: reorg delete, reference lookups, COPY, notification
	d, err := dig.New(m.Name, m.Event, m.Block, m.Table, m.Notification, m.FilterAGG)
	if err == nil {
		_ = d.Delete(ctx, rec, 5)
		blocks := make([]eth.Block, 1)
		blocks[0].Txs = make(eth.Txs, 1)
		topic1 := make([]byte, 32)
		blocks[0].Txs[0].Logs = eth.Logs{{Address: make([]byte, 20), Topics: []eth.Bytes{d.Event.SignatureHash(), topic1}, Data: make([]byte, 64)}}
		func() {
			defer func() { recover() }()
			d.Insert(ctx, &sync.Mutex{}, rec, blocks)
		}()
	}
	zzvrf.Assert(len(rec.texts) > 5, "sql-builders-exercised")
	safe := zzSafeByte(c)
	for _, s := range rec.texts {
		zzvrf.Assert(zzvrf.Implies(zzvrf.TextDependsOn(s, c), safe), "only-identifier-characters-reach-sql-text:"+what)
	}
	zzvrf.Reach("end")
}

// ZZ_C15_Chain: chain-derived values (address, topics, data with arbitrary
// bytes, SQL metacharacters included) reach the database only as parameters
// or COPY data: no SQL text depends on them.
func ZZ_C15_Chain() {
	zzReset()
	conf := zzSkeleton()
	if err := config.ValidateFix(&conf); err != nil {
		zzvrf.Assert(false, "skeleton-valid")
		return
	}
	m := conf.Integrations[1]
	rec := &zzSQLRec{}
	ctx := wctx.WithSrcName(context.Background(), "s1")
	d, err := dig.New(m.Name, m.Event, m.Block, m.Table, m.Notification, m.FilterAGG)
	zzvrf.Assert(err == nil, "integration-builds")
	addr := zzvrf.Bytes("log.address", 20, 20)
	topic1 := zzvrf.Bytes("log.topic1", 32, 32)
	data := zzvrf.Bytes("log.data", 64, 64)
	blocks := make([]eth.Block, 1)
	blocks[0].Txs = make(eth.Txs, 1)
	blocks[0].Txs[0].Logs = eth.Logs{{Address: addr, Topics: []eth.Bytes{d.Event.SignatureHash(), topic1}, Data: data}}
	_, ierr := d.Insert(ctx, &sync.Mutex{}, rec, blocks)
	zzvrf.Assert(ierr == nil, "insert-ok")
	zzvrf.Assert(len(rec.texts) >= 3, "lookups-and-notification-exercised")
	for _, s := range rec.texts {
		zzvrf.Assert(!zzvrf.TextDependsOn(s, 0xfe), "chain-data-never-in-sql-text")
	}
	zzvrf.Reach("end")
}
