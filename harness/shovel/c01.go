package shovel

import (
	"errors"

	"github.com/indexsupply/shovel/zzvrf"
)

// ZZ_C01_Step: one Converge step on a chain that only grows, from an
// arbitrary invariant pre-state with k cursor rows.
//   batch, conc: task settings (concrete per run; batch also bounds the blocks materialised)
func ZZ_C01_Step(k, batch, conc int) {
	zzReset()
	if conc > batch {
		zzvrf.Unwind(conc + 3)
	} else {
		zzvrf.Unwind(batch + 3)
	}
	src := &zzSource{withHash: true}
	pre := zzPreState("s", "ig", k, k)
	start := zzvrf.U64("start")
	zzvrf.Assume(start < 1<<62)
	t := zzTask(src, "s", "ig", batch, conc, start, 0, nil)
	var p0 uint64
	hadCursor := k > 0
	if hadCursor {
		p0 = pre.cur[k-1].num
	}
	lo0, hadRows := pre.lo, pre.hasRows

	err, panicked := zzConverge(t)
	zzvrf.Assert(!panicked, "no-panic")
	if panicked {
		return
	}
	zzvrf.Assert(zzOpenTx == 0, "every-transaction-closed")
	post := zzFind(&zzCommitted, "s", "ig")
	zzvrf.Assert(zzInv(post), "rows-cover-exactly-the-position")
	if err != nil {
		if errors.Is(err, ErrNothingNew) || errors.Is(err, ErrAhead) || errors.Is(err, ErrDone) {
			zzvrf.Assert(zzCommits == 0 || len(post.cur) == k, "no-progress-outcome-writes-nothing")
		}
		zzvrf.Reach("end")
		return
	}
	zzvrf.Reach("advanced")
	// position before the step: cursor, else start-1, else head-1 (C06)
	if !hadCursor {
		zzvrf.Reach("end")
		return
	}
	// A3: exactly one new cursor row (p0+d, hash(p0+d)); rows p0+1..p0+d added once each, in order
	zzvrf.Assert(len(post.cur) == k+1, "one-new-cursor-row")
	if len(post.cur) != k+1 {
		return
	}
	top := post.cur[k]
	d := len(post.insLog)
	zzvrf.Assert(d >= 1 && d <= batch, "step-size-within-batch")
	zzvrf.Assert(top.num == p0+uint64(d), "position-advances-by-blocks-written")
	zzvrf.Assert(zzvrf.BytesEq(top.hash, zzH(0, top.num)), "position-hash-is-block-hash")
	for i, n := range post.insLog {
		zzvrf.Assert(n == p0+1+uint64(i), "each-block-inserted-once-in-order")
	}
	if hadRows {
		zzvrf.Assert(post.lo == lo0, "blocks-below-untouched")
	}
	// partition handed to the source: no overlap, no gap, no wrap
	// the goroutines may run in any order: the partition is a property of the set:
	// every range starts at p0+1 or where another one ends, starts are distinct,
	// none is empty, and the lengths add up to the blocks inserted
	var total uint64
	log := src.getLog
	for i, g := range log {
		zzvrf.Assert(g[1] >= 1, "fetch-partition-non-empty")
		linked := g[0] == p0+1
		for k, h := range log {
			if k != i {
				linked = zzvrf.Or(linked, h[0]+h[1] == g[0])
				zzvrf.Assert(h[0] != g[0], "fetch-partitions-disjoint")
			}
		}
		zzvrf.Assert(linked, "fetch-partitions-contiguous")
		zzvrf.Assert(g[0]+g[1] > g[0], "fetch-range-does-not-wrap")
		total += g[1]
	}
	zzvrf.Assert(total == uint64(d), "fetched-equals-inserted")
	zzvrf.Reach("end")
}
