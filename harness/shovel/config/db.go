package config

import (
	"context"

	"github.com/indexsupply/shovel/wpg"
	"github.com/jackc/pgx/v5/pgxpool"
)

// The two database readers are cut here (engine redirect / native rename).
var (
	ZZDBIntegrations []Integration
	ZZDBSources      []Source
	ZZDBErr          error
)

func zzDBIntegrations(ctx context.Context, pg wpg.Conn) ([]Integration, error) {
	if ZZDBErr != nil {
		return nil, ZZDBErr
	}
	return append([]Integration(nil), ZZDBIntegrations...), nil
}

func zzDBSources(ctx context.Context, pgp *pgxpool.Pool) ([]Source, error) {
	if ZZDBErr != nil {
		return nil, ZZDBErr
	}
	return append([]Source(nil), ZZDBSources...), nil
}

// ZZPendingColumns sets what information_schema answers for the next Diff.
func ZZPendingColumns(cols []wpg.Column) { zzPending = cols }
