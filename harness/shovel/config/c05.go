package config

import (
	"github.com/indexsupply/shovel/dig"
	"github.com/indexsupply/shovel/wpg"
	"github.com/indexsupply/shovel/zzvrf"
)

func zzIg(name string, cols ...string) Integration {
	ig := Integration{Name: name, Enabled: true, Table: wpg.Table{Name: "t_" + name}}
	for _, c := range cols {
		ig.Table.Columns = append(ig.Table.Columns, wpg.Column{Name: c, Type: "bytea"})
	}
	return ig
}

// ZZ_C05_Refs: integrations b, c (and d) carry filter references to a and/or
// x, on event inputs or block fields, in a case-split arrangement. After
// ValidateFix every referencing integration lists every integration it
// references among its Dependencies, and the referenced table is filled in.
//   refB, refC: 0 none, 1 -> a via event input, 2 -> a via block field, 3 -> x via event input, 4 -> a and x
func ZZ_C05_Refs(refB, refC, order int) {
	a := zzIg("a", "addr")
	x := zzIg("x", "addr")
	mk := func(name string, ref int) Integration {
		ig := zzIg(name, "c_in", "log_addr")
		ig.Event = dig.Event{Name: "Ev", Type: "event", Inputs: []dig.Input{{Name: "in", Type: "address", Indexed: true, Column: "c_in"}, {Name: "in2", Type: "address", Indexed: true}}}
		ig.Block = []dig.BlockData{{Name: "log_addr", Column: "log_addr"}}
		switch ref {
		case 1:
			ig.Event.Inputs[0].Filter = dig.Filter{Op: "contains", Ref: dig.Ref{Integration: "a", Column: "addr"}}
		case 2:
			ig.Block[0].Filter = dig.Filter{Op: "contains", Ref: dig.Ref{Integration: "a", Column: "addr"}}
		case 3:
			ig.Event.Inputs[0].Filter = dig.Filter{Op: "contains", Ref: dig.Ref{Integration: "x", Column: "addr"}}
		case 4:
			ig.Event.Inputs[0].Filter = dig.Filter{Op: "contains", Ref: dig.Ref{Integration: "a", Column: "addr"}}
			ig.Block[0].Filter = dig.Filter{Op: "contains", Ref: dig.Ref{Integration: "x", Column: "addr"}}
		}
		return ig
	}
	b, c := mk("b", refB), mk("c", refC)
	var conf Root
	switch order {
	case 0:
		conf.Integrations = []Integration{a, x, b, c}
	case 1:
		conf.Integrations = []Integration{c, b, x, a}
	default:
		conf.Integrations = []Integration{b, a, c, x}
	}
	err := ValidateFix(&conf)
	zzvrf.Assert(err == nil, "valid-config-accepted")
	if err != nil {
		return
	}
	want := func(ref int) []string {
		switch ref {
		case 1, 2:
			return []string{"a"}
		case 3:
			return []string{"x"}
		case 4:
			return []string{"a", "x"}
		}
		return nil
	}
	for _, ig := range conf.Integrations {
		var w []string
		switch ig.Name {
		case "b":
			w = want(refB)
		case "c":
			w = want(refC)
		default:
			zzvrf.Assert(len(ig.Dependencies) == 0, "no-spurious-dependency")
			continue
		}
		for _, dep := range w {
			found := false
			for _, d := range ig.Dependencies {
				if d == dep {
					found = true
				}
			}
			zzvrf.Assert(found, "every-referenced-integration-is-a-dependency")
		}
		for _, d := range ig.Dependencies {
			ok := false
			for _, dep := range w {
				if d == dep {
					ok = true
				}
			}
			zzvrf.Assert(ok, "no-spurious-dependency")
		}
		// the referenced table name is taken from the referenced integration
		for _, inp := range ig.Event.Inputs {
			if inp.Filter.Ref.Integration != "" {
				zzvrf.Assert(inp.Filter.Ref.Table == "t_"+inp.Filter.Ref.Integration, "referenced-table-from-validated-integration")
			}
		}
		for _, bd := range ig.Block {
			if bd.Filter.Ref.Integration != "" {
				zzvrf.Assert(bd.Filter.Ref.Table == "t_"+bd.Filter.Ref.Integration, "referenced-table-from-validated-integration")
			}
		}
	}
	zzvrf.Reach("end")
}
