package config

import (
	"context"
	"strings"

	"github.com/indexsupply/shovel/dig"
	"github.com/indexsupply/shovel/wpg"
	"github.com/indexsupply/shovel/zzvrf"
	"github.com/jackc/pgx/v5"
	"github.com/jackc/pgx/v5/pgconn"
)

// zzSchemaConn records DDL and answers information_schema from `existing`.
type zzSchemaConn struct {
	sql      []string
	existing map[string][]string // table -> columns already in the database
}

func (c *zzSchemaConn) CopyFrom(ctx context.Context, t pgx.Identifier, cols []string, src pgx.CopyFromSource) (int64, error) {
	panic("unmodelled")
}
func (c *zzSchemaConn) Exec(ctx context.Context, sql string, args ...any) (pgconn.CommandTag, error) {
	c.sql = append(c.sql, sql)
	return pgconn.CommandTag{}, nil
}
func (c *zzSchemaConn) QueryRow(ctx context.Context, sql string, args ...any) pgx.Row {
	panic("unmodelled")
}

type zzColRows struct{ cols []wpg.Column }

func (c *zzSchemaConn) Query(ctx context.Context, sql string, args ...any) (pgx.Rows, error) {
	t, _ := args[0].(string)
	zzPending = nil
	for _, n := range c.existing[t] {
		zzPending = append(zzPending, wpg.Column{Name: n, Type: "x"})
	}
	return nil, nil
}

var zzPending []wpg.Column

func init() {
	wpg.ZZCollect = func() []wpg.Column { return zzPending }
}

// shapes: 0 transaction fields, 1 log with an indexed selected input,
// 2 log with a non-indexed selected input, 3 trace fields, 4 log whose selected value is a component of a tuple array
func zzShape(name, table string, shape, userIdentity, order int) Integration {
	ig := Integration{Name: name, Enabled: true, Table: wpg.Table{Name: table}}
	var cols []string
	switch shape {
	case 0:
		ig.Block = []dig.BlockData{{Name: "tx_hash", Column: "tx_hash"}, {Name: "tx_value", Column: "val"}}
		cols = []string{"tx_hash", "val"}
	case 1:
		ig.Event = dig.Event{Name: "Ev", Type: "event", Inputs: []dig.Input{{Name: "a", Type: "address", Indexed: true, Column: "c_a"}, {Name: "b", Type: "uint256"}}}
		ig.Block = []dig.BlockData{{Name: "log_addr", Column: "addr"}}
		cols = []string{"c_a", "addr"}
	case 2:
		ig.Event = dig.Event{Name: "Ev", Type: "event", Inputs: []dig.Input{{Name: "a", Type: "address", Indexed: true}, {Name: "b", Type: "uint256[]", Column: "c_b"}}}
		cols = []string{"c_b"}
	case 3:
		ig.Block = []dig.BlockData{{Name: "trace_action_from", Column: "t_from"}, {Name: "trace_action_value", Column: "t_val"}}
		cols = []string{"t_from", "t_val"}
	case 4: // the only selected non-indexed value sits inside an array of tuples
		ig.Event = dig.Event{Name: "Ev", Type: "event", Inputs: []dig.Input{{Name: "a", Type: "address", Indexed: true}, {Name: "fills", Type: "tuple[]", Components: []dig.Input{{Name: "amt", Type: "uint256", Column: "c_amt"}, {Name: "who", Type: "address"}}}}}
		cols = []string{"c_amt"}
	}
	if userIdentity == 1 {
		// the user already declares an identity column and its block field
		ig.Block = append(ig.Block, dig.BlockData{Name: "block_num", Column: "block_num"})
		cols = append(cols, "block_num")
	}
	if userIdentity == 2 {
		// the user declares identity COLUMNS in the table only (no block entries):
		// the fields must still be added so the columns are written
		cols = append(cols, "block_num", "tx_idx")
	}
	if order == 1 {
		for i, j := 0, len(cols)-1; i < j; i, j = i+1, j-1 {
			cols[i], cols[j] = cols[j], cols[i]
		}
	}
	for _, c := range cols {
		ig.Table.Columns = append(ig.Table.Columns, wpg.Column{Name: c, Type: "bytea"})
	}
	return ig
}

func zzKeyNeeded(shape int) []string {
	k := []string{"ig_name", "src_name", "block_num", "tx_idx"}
	switch shape {
	case 1:
		k = append(k, "log_idx")
	case 2, 4:
		k = append(k, "log_idx", "abi_idx")
	case 3:
		k = append(k, "trace_action_idx")
	}
	return k
}

// "create table if not exists T(c1 t1, c2 t2)" -> table, columns
func zzParseCreate(stmt string) (string, []string) {
	const p = "create table if not exists "
	if !strings.HasPrefix(stmt, p) {
		return "", nil
	}
	rest := stmt[len(p):]
	i := strings.Index(rest, "(")
	table := rest[:i]
	body := rest[i+1 : len(rest)-1]
	var cols []string
	for _, part := range strings.Split(body, ", ") {
		f := strings.Split(part, " ")
		cols = append(cols, strings.Trim(f[0], `"`))
	}
	return table, cols
}

// "create unique index if not exists u_T on T (a, b)" -> T, [a b]
func zzParseUnique(stmt string) (string, []string) {
	const p = "create unique index if not exists "
	if !strings.HasPrefix(stmt, p) {
		return "", nil
	}
	i := strings.Index(stmt, " on ")
	rest := stmt[i+4:]
	j := strings.Index(rest, " (")
	table := rest[:j]
	body := rest[j+2 : len(rest)-1]
	var cols []string
	for _, c := range strings.Split(body, ", ") {
		cols = append(cols, strings.Trim(c, `"`))
	}
	return table, cols
}

func zzHas(list []string, s string) bool {
	for _, x := range list {
		if x == s {
			return true
		}
	}
	return false
}

// ZZ_C16_Schema: one or two integrations (shapeB = -1: one), sharing a table or not.
func ZZ_C16_Schema(shapeA, shapeB, shared int) {
	uidA, ordA := zzvrf.Pick("A.user-identity", 3), zzvrf.Pick("A.column-order", 2)
	conf := Root{}
	conf.Integrations = append(conf.Integrations, zzShape("a", "t1", shapeA, uidA, ordA))
	shapes := []int{shapeA}
	if shapeB >= 0 {
		tb := "t2"
		if shared == 1 {
			tb = "t1"
		}
		uidB, ordB := zzvrf.Pick("B.user-identity", 3), zzvrf.Pick("B.column-order", 2)
		conf.Integrations = append(conf.Integrations, zzShape("b", tb, shapeB, uidB, ordB))
		shapes = append(shapes, shapeB)
	}
	if zzvrf.Pick("declaration-order", 2) == 1 && len(conf.Integrations) == 2 {
		conf.Integrations[0], conf.Integrations[1] = conf.Integrations[1], conf.Integrations[0]
		shapes[0], shapes[1] = shapes[1], shapes[0]
	}
	err := ValidateFix(&conf)
	zzvrf.Assert(err == nil, "valid-configuration-accepted")
	if err != nil {
		return
	}
	// S3 identity columns
	for i, ig := range conf.Integrations {
		for _, k := range zzKeyNeeded(shapes[i]) {
			found := false
			for _, c := range ig.Table.Columns {
				if c.Name == k {
					found = true
				}
			}
			zzvrf.Assert(found, "identity-columns-added")
		}
	}
	// what each integration writes
	writes := make([][]string, len(conf.Integrations))
	for i, ig := range conf.Integrations {
		d, derr := dig.New(ig.Name, ig.Event, ig.Block, ig.Table, ig.Notification, ig.FilterAGG)
		zzvrf.Assert(derr == nil, "integration-builds")
		writes[i] = d.Columns
		for _, c := range d.Columns {
			zzvrf.Assert(c != "", "every-written-column-exists-in-its-table-definition")
		}
	}
	// S1/S2: generated table definitions (union for shared tables)
	created := map[string][]string{}
	for _, stmt := range DDL(conf) {
		if t, cols := zzParseCreate(stmt); t != "" {
			created[t] = cols
		}
	}
	for i, ig := range conf.Integrations {
		for _, c := range writes[i] {
			zzvrf.Assert(zzHas(created[ig.Table.Name], c), "table-definition-has-every-written-column")
		}
	}
	// migration against an existing database: each table exists with a prefix of its columns
	conn := &zzSchemaConn{existing: map[string][]string{}}
	for t, cols := range created {
		// the table does not exist yet, exists with half of its columns, with all of
		// them, or exactly as the first integration using it defines it (the table
		// was created before the second integration was added to the configuration)
		switch c := zzvrf.Pick("existing-columns:"+t, 4); c {
		case 3:
			for _, ig := range conf.Integrations {
				if ig.Table.Name == t {
					for _, col := range ig.Table.Columns {
						conn.existing[t] = append(conn.existing[t], col.Name)
					}
					break
				}
			}
		default:
			k := []int{0, len(cols) / 2, len(cols)}[c]
			conn.existing[t] = append([]string(nil), cols[:k]...)
		}
	}
	merr := Migrate(context.Background(), conn, conf)
	zzvrf.Assert(merr == nil, "migration-runs")
	final := map[string][]string{}
	for t, cols := range conn.existing {
		final[t] = append([]string(nil), cols...)
	}
	uniq := map[string][]string{}
	for _, stmt := range conn.sql {
		const ap = "alter table "
		if strings.HasPrefix(stmt, ap) {
			f := strings.Split(stmt[len(ap):], " ")
			// alter table T add column if not exists C TYPE
			final[f[0]] = append(final[f[0]], strings.Trim(f[6], `"`))
		}
		if t, cols := zzParseUnique(stmt); t != "" {
			if _, ok := uniq[t]; !ok { // "if not exists": the first one wins
				uniq[t] = cols
			}
		}
	}
	for i, ig := range conf.Integrations {
		for _, c := range writes[i] {
			zzvrf.Assert(zzHas(final[ig.Table.Name], c), "migrated-table-has-every-written-column")
		}
		key := uniq[ig.Table.Name]
		if shared == 1 && len(shapes) == 2 && shapes[0] != shapes[1] && zzvrf.Flag("known-C16-shared-table-key") {
			// known finding (known_findings.json): integrations of different
			// shapes sharing a table get one unique index, the first one created
			continue
		}
		for _, k := range zzKeyNeeded(shapes[i]) {
			zzvrf.Assert(zzHas(key, k), "unique-key-distinguishes-the-integration's-rows")
		}
		for _, k := range key {
			zzvrf.Assert(zzHas(writes[i], k), "unique-key-column-is-written-so-a-reinsert-collides")
		}
	}
	zzvrf.Reach("end")
}

// ZZ_C16_Missing: a selected input, block field or notification column
// without a table column is rejected.
func ZZ_C16_Missing(shape, which int) {
	ig := zzShape("a", "t1", shape, 0, 0)
	if which >= 3 {
		// several selected inputs / block fields of which a LATER one lacks its column
		ig = Integration{Name: "a", Enabled: true, Table: wpg.Table{Name: "t1"}}
		ig.Event = dig.Event{Name: "Ev", Type: "event", Inputs: []dig.Input{
			{Name: "a", Type: "address", Indexed: true, Column: "c_a"},
			{Name: "b", Type: "uint256", Column: "c_b"},
			{Name: "c", Type: "uint256", Column: "c_c"}}}
		ig.Block = []dig.BlockData{{Name: "log_addr", Column: "addr"}, {Name: "block_time", Column: "bt"}}
		missing := []string{"c_b", "c_c", "bt", "", "", "", "", "", ""}[which-3]
		for _, c := range []string{"c_a", "c_b", "c_c", "addr", "bt"} {
			if c != missing {
				ig.Table.Columns = append(ig.Table.Columns, wpg.Column{Name: c, Type: "bytea"})
			}
		}
	}
	if which >= 6 {
		// an identity field declared under another column name that the table lacks
		id := []string{"tx_idx", "block_num", "log_idx", "src_name", "ig_name", "abi_idx"}[which-6]
		ig.Block = append(ig.Block, dig.BlockData{Name: id, Column: "idc"})
	}
	switch which {
	case 0: // drop the column of the first user field
		ig.Table.Columns = ig.Table.Columns[1:]
	case 1: // notification on a column that does not exist
		ig.Notification.Columns = []string{"nope"}
	case 2: // block field without a column name
		ig.Block = append(ig.Block, dig.BlockData{Name: "block_time"})
	}
	conf := Root{Integrations: []Integration{ig}}
	err := ValidateFix(&conf)
	zzvrf.Assert(err != nil, "missing-column-rejected")
	zzvrf.Reach("end")
}
