package shovel

import (
	"context"
	"time"

	"github.com/indexsupply/shovel/dig"
	"github.com/indexsupply/shovel/jrpc2"
	"github.com/indexsupply/shovel/shovel/config"
	"github.com/indexsupply/shovel/wpg"
	"github.com/indexsupply/shovel/zzvrf"
)

// ZZ_C20_Restart: the manager under the engine's scheduler. One generation
// is started, a restart is requested at an arbitrary point of the running
// generation's steps, and after Restart has returned no task of the previous
// generation may issue another source call.
//   budget: preemptions allowed; ntasks: integrations (runners) per generation
func ZZ_C20_Restart(budget, ntasks, maxPoints int) {
	zzReset()
	var conf config.Root
	conf.Sources = []config.Source{{Name: "s1", ChainID: 1, URLs: []string{"http://n"}, PollDuration: 1}}
	for i := 0; i < ntasks; i++ {
		name := "ig" + string(rune('a'+i))
		conf.Integrations = append(conf.Integrations, config.Integration{
			Name: name, Enabled: true, Sources: []config.Source{{Name: "s1"}},
			Table: wpg.Table{Name: "t_" + name, Columns: []wpg.Column{{Name: "block_num", Type: "numeric"}}},
			Block: []dig.BlockData{{Name: "block_num", Column: "block_num"}},
		})
	}
	config.ZZDBIntegrations, config.ZZDBSources, config.ZZDBErr = nil, nil, nil
	jrpc2.ZZHonest(100, 1)
	jrpc2.ZZSetHead(100)

	restartReturned := false
	var gen1 []*jrpc2.Client
	jrpc2.ZZOnCall = func(c *jrpc2.Client) {
		old := false
		for _, g := range gen1 {
			if g == c {
				old = true
			}
		}
		zzvrf.Assert(!(restartReturned && old), "previous-generation-has-stopped-when-restart-returns")
	}
	defer func() { jrpc2.ZZOnCall = nil }()

	mgr := NewManager(context.Background(), nil, conf)
	zzvrf.Scheduled(budget, maxPoints)
	ec := make(chan error)
	go mgr.Run(ec)
	err := <-ec
	zzvrf.Assert(err == nil, "startup-loads")
	if err != nil {
		return
	}
	zzvrf.Assert(len(mgr.tasks) == ntasks, "one-runner-per-configured-pair")
	for _, t := range mgr.tasks {
		if c, ok := t.src.(*jrpc2.Client); ok {
			gen1 = append(gen1, c)
		}
	}
	zzvrf.Yield()
	rerr := mgr.Restart()
	restartReturned = true
	zzvrf.Assert(rerr == nil, "restart-loads")
	zzvrf.Assert(len(mgr.tasks) == ntasks, "one-runner-per-configured-pair-after-restart")
	for _, t := range mgr.tasks {
		for _, g := range gen1 {
			zzvrf.Assert(t.src != Source(g), "new-generation-has-new-tasks")
		}
	}
	// let whatever is still alive run
	zzvrf.Yield()
	zzvrf.Yield()
	zzvrf.Reach("end")
}

func zzIG(name, src string) config.Integration {
	return config.Integration{
		Name: name, Enabled: true, Sources: []config.Source{{Name: src}},
		Table: wpg.Table{Name: "t_" + name, Columns: []wpg.Column{{Name: "block_num", Type: "numeric"}}},
		Block: []dig.BlockData{{Name: "block_num", Column: "block_num"}},
	}
}

// ZZ_C20_Sequence: restarts in sequence, under the scheduler, with the
// database configuration changing between them (what the dashboard does:
// store, then Restart).
//   scenario 0: the manager is idle (no enabled integration in the first
//               generation, its Run has returned); an integration is stored
//               and a restart requested: the new task must be loaded AND run
//   scenario 1: a stored integration references an unknown source: Restart
//               reports the error; the source is then added and a second
//               restart requested: it must succeed and the tasks must run
//   scenario 2: two successful restarts in a row while tasks run
func ZZ_C20_Sequence(scenario, budget, maxPoints, looks int) {
	zzReset()
	var conf config.Root
	conf.Sources = []config.Source{{Name: "s1", ChainID: 1, URLs: []string{"http://n"}, PollDuration: 1}}
	if scenario != 0 {
		conf.Integrations = append(conf.Integrations, zzIG("iga", "s1"))
	}
	config.ZZDBIntegrations, config.ZZDBSources, config.ZZDBErr = nil, nil, nil
	jrpc2.ZZHonest(100, 1)
	jrpc2.ZZSetHead(100)
	var current []*jrpc2.Client // clients of the generation that should be running
	callsByCurrent := 0
	restartReturned := false
	var previous []*jrpc2.Client
	jrpc2.ZZOnCall = func(c *jrpc2.Client) {
		for _, g := range current {
			if g == c {
				callsByCurrent++
			}
		}
		old := false
		for _, g := range previous {
			if g == c {
				old = true
			}
		}
		zzvrf.Assert(!(restartReturned && old), "previous-generation-has-stopped-when-restart-returns")
	}
	defer func() { jrpc2.ZZOnCall = nil }()
	clients := func(ts []*Task) []*jrpc2.Client {
		var out []*jrpc2.Client
		for _, t := range ts {
			if c, ok := t.src.(*jrpc2.Client); ok {
				out = append(out, c)
			}
		}
		return out
	}

	mgr := NewManager(context.Background(), nil, conf)
	zzvrf.Scheduled(budget, maxPoints)
	if scenario != 0 {
		// the set-up (start-up and the first restart) runs along one
		// representative schedule; enumeration starts at the last restart
		// (the first restart under every schedule is ZZ_C20_Restart's subject)
		zzvrf.SchedFreeze(true)
	}
	ec := make(chan error)
	go mgr.Run(ec)
	err := <-ec
	zzvrf.Assert(err == nil, "startup-loads")
	if err != nil {
		return
	}
	current = clients(mgr.tasks)
	zzvrf.Yield()

	want := len(conf.Integrations)
	switch scenario {
	case 0:
		config.ZZDBIntegrations = []config.Integration{zzIG("igdb", "s1")}
		want = 1
	case 1:
		config.ZZDBIntegrations = []config.Integration{zzIG("igdb", "s2")}
		previous = current
		restartReturned = false
		rerr := mgr.Restart()
		restartReturned = true
		zzvrf.Assert(rerr != nil, "unknown-source-reference-is-an-error")
		current = nil
		zzvrf.Yield()
		// the operator adds the missing source (AddSource stores it, then restarts)
		config.ZZDBSources = []config.Source{{Name: "s2", ChainID: 2, URLs: []string{"http://n"}, PollDuration: 1}}
		want = 2
	case 2:
		previous = current
		restartReturned = false
		rerr := mgr.Restart()
		restartReturned = true
		zzvrf.Assert(rerr == nil, "restart-loads")
		current = clients(mgr.tasks)
		zzvrf.Yield()
		config.ZZDBIntegrations = []config.Integration{zzIG("igdb", "s1")}
		want = 2
	}
	previous = append(previous, current...)
	restartReturned = false
	zzvrf.SchedFreeze(false)
	var rerr error
	panicked := false
	func() {
		defer func() {
			if r := recover(); r != nil {
				panicked = true
			}
		}()
		rerr = mgr.Restart()
	}()
	zzvrf.Assert(!panicked, "restart-does-not-panic")
	if panicked {
		return
	}
	restartReturned = true
	zzvrf.Assert(rerr == nil, "restart-loads")
	if rerr != nil {
		return
	}
	zzvrf.Assert(len(mgr.tasks) == want, "one-runner-per-configured-pair-after-restart")
	current = clients(mgr.tasks)
	callsByCurrent = 0
	// let the new generation run for a while (Sleep hands the processor to any
	// other runnable goroutine). Its tasks have no stop and the source has a
	// head, so no runner may exit: the generation's Run must still hold the
	// manager's lock whenever we look.
	for i := 0; i < looks; i++ {
		time.Sleep(1)
		if mgr.running.TryLock() {
			mgr.running.Unlock()
			zzvrf.Assert(false, "newly-loaded-tasks-keep-running")
			return
		}
	}
	if callsByCurrent > 0 {
		zzvrf.Reach("new-task-asked-the-source")
	}
	zzvrf.Reach("end")
}
