package shovel

import (
	"context"

	"github.com/indexsupply/shovel/dig"
	"github.com/indexsupply/shovel/jrpc2"
	"github.com/indexsupply/shovel/shovel/config"
	"github.com/indexsupply/shovel/wpg"
	"github.com/indexsupply/shovel/zzvrf"
)

// ZZ_C20_Restart: the manager under the engine's scheduler. One generation
// is started, a restart is requested at an arbitrary point of the running
// generation's steps, and after Restart has returned no task of the previous
// generation may issue another source call.
//   budget: preemptions allowed; ntasks: integrations (runners) per generation
func ZZ_C20_Restart(budget, ntasks, maxPoints int) {
	zzReset()
	var conf config.Root
	conf.Sources = []config.Source{{Name: "s1", ChainID: 1, URLs: []string{"http://n"}, PollDuration: 1}}
	for i := 0; i < ntasks; i++ {
		name := "ig" + string(rune('a'+i))
		conf.Integrations = append(conf.Integrations, config.Integration{
			Name: name, Enabled: true, Sources: []config.Source{{Name: "s1"}},
			Table: wpg.Table{Name: "t_" + name, Columns: []wpg.Column{{Name: "block_num", Type: "numeric"}}},
			Block: []dig.BlockData{{Name: "block_num", Column: "block_num"}},
		})
	}
	config.ZZDBIntegrations, config.ZZDBSources, config.ZZDBErr = nil, nil, nil
	jrpc2.ZZHonest(100, 1)
	jrpc2.ZZSetHead(100)

	restartReturned := false
	var gen1 []*jrpc2.Client
	jrpc2.ZZOnCall = func(c *jrpc2.Client) {
		old := false
		for _, g := range gen1 {
			if g == c {
				old = true
			}
		}
		zzvrf.Assert(!(restartReturned && old), "previous-generation-has-stopped-when-restart-returns")
	}
	defer func() { jrpc2.ZZOnCall = nil }()

	mgr := NewManager(context.Background(), nil, conf)
	zzvrf.Scheduled(budget, maxPoints)
	ec := make(chan error)
	go mgr.Run(ec)
	err := <-ec
	zzvrf.Assert(err == nil, "startup-loads")
	if err != nil {
		return
	}
	zzvrf.Assert(len(mgr.tasks) == ntasks, "one-runner-per-configured-pair")
	for _, t := range mgr.tasks {
		if c, ok := t.src.(*jrpc2.Client); ok {
			gen1 = append(gen1, c)
		}
	}
	zzvrf.Yield()
	rerr := mgr.Restart()
	restartReturned = true
	zzvrf.Assert(rerr == nil, "restart-loads")
	zzvrf.Assert(len(mgr.tasks) == ntasks, "one-runner-per-configured-pair-after-restart")
	for _, t := range mgr.tasks {
		for _, g := range gen1 {
			zzvrf.Assert(t.src != Source(g), "new-generation-has-new-tasks")
		}
	}
	// let whatever is still alive run
	zzvrf.Yield()
	zzvrf.Yield()
	zzvrf.Reach("end")
}
