package shovel

import (
	"context"
	"sync"

	"github.com/holiman/uint256"
	"github.com/indexsupply/shovel/dig"
	"github.com/indexsupply/shovel/eth"
	"github.com/indexsupply/shovel/jrpc2"
	"github.com/indexsupply/shovel/shovel/config"
	"github.com/indexsupply/shovel/wctx"
	"github.com/indexsupply/shovel/wpg"
	"github.com/indexsupply/shovel/zzvrf"
	"github.com/jackc/pgx/v5"
)

// every field name the row builder understands (dig.logWithCtx.get)
var zzFields = []string{
	"block_hash", "block_num", "block_time",
	"tx_hash", "tx_idx", "tx_signer", "tx_to", "tx_value", "tx_input", "tx_type", "tx_status",
	"tx_gas_used", "tx_gas_price", "tx_effective_gas_price", "tx_contract_address",
	"tx_max_priority_fee_per_gas", "tx_max_fee_per_gas", "tx_nonce",
	"log_idx", "log_addr",
	"trace_action_call_type", "trace_action_idx", "trace_action_from", "trace_action_to", "trace_action_value",
	"chain_id", "src_name", "ig_name",
}

// zzCopySink captures COPY rows.
type zzCopySink struct {
	zzTx
	cols []string
	rows [][]any
}

func (s *zzCopySink) CopyFrom(ctx context.Context, tableName pgx.Identifier, columnNames []string, rowSrc pgx.CopyFromSource) (int64, error) {
	s.cols = columnNames
	for rowSrc.Next() {
		v, err := rowSrc.Values()
		if err != nil {
			return 0, err
		}
		s.rows = append(s.rows, v)
	}
	return int64(len(s.rows)), nil
}

func zzU256Is(got any, want uint64) bool {
	x, ok := got.(*uint256.Int)
	if !ok {
		return false
	}
	return zzvrf.And(x[0] == want, zzvrf.And(x[1] == 0, zzvrf.And(x[2] == 0, x[3] == 0)))
}

func zzBytesIs(got any, want []byte) bool {
	switch x := got.(type) {
	case []byte:
		return zzvrf.BytesEq(x, want)
	case eth.Bytes:
		return zzvrf.BytesEq(x, want)
	}
	return false
}

func zzU64Is(got any, want uint64) bool {
	switch x := got.(type) {
	case uint64:
		return x == want
	case eth.Uint64:
		return uint64(x) == want
	case eth.Byte:
		return uint64(x) == want
	}
	return false
}

// ZZ_C14_Fields: an integration selecting fields f1, f2, f3 (indices into
// zzFields; -1 = none), with or without an event; the honest node supplies
// exactly what each JSON-RPC method returns. Every stored cell must be the
// node's value - never a zero default.
func ZZ_C14_Fields(f1, f2, f3, withEvent int) {
	zzReset()
	if f1 < 0 {
		// enumerate all pairs inside one run
		f1 = zzvrf.Pick("f1", len(zzFields))
		f2 = zzvrf.Pick("f2", len(zzFields))
		f3 = -1
	}
	var names []string
	for _, f := range []int{f1, f2, f3} {
		if f < 0 {
			continue
		}
		dup := false
		for _, n := range names {
			if n == zzFields[f] {
				dup = true
			}
		}
		if !dup {
			names = append(names, zzFields[f])
		}
	}
	// domain: log fields belong to integrations that declare an event; the
	// element index of traces is an identity column that accompanies another
	// trace field (it is added automatically with one).
	nTrace, hasTraceIdx := 0, false
	for _, n := range names {
		if (n == "log_idx" || n == "log_addr") && withEvent == 0 {
			zzvrf.Reach("outside-domain")
			return
		}
		if len(n) > 6 && n[:6] == "trace_" {
			if n == "trace_action_idx" {
				hasTraceIdx = true
			} else {
				nTrace++
			}
		}
	}
	if hasTraceIdx && nTrace == 0 {
		zzvrf.Reach("outside-domain")
		return
	}
	if nTrace > 0 && withEvent == 1 {
		zzvrf.Reach("outside-domain")
		return // an integration indexes either logs or traces
	}
	ig := config.Integration{Name: "ig", Enabled: true, Table: wpg.Table{Name: "t"}}
	for _, n := range names {
		ig.Block = append(ig.Block, dig.BlockData{Name: n, Column: n})
		ig.Table.Columns = append(ig.Table.Columns, wpg.Column{Name: n, Type: "bytea"})
	}
	if withEvent == 1 {
		ig.Event = dig.Event{Name: "Ev", Type: "event", Inputs: []dig.Input{{Name: "a", Type: "uint256", Column: "c_a"}}}
		ig.Table.Columns = append(ig.Table.Columns, wpg.Column{Name: "c_a", Type: "numeric"})
	}
	ig.AddRequiredFields()
	dest, err := dig.New(ig.Name, ig.Event, ig.Block, ig.Table, ig.Notification, ig.FilterAGG)
	zzvrf.Assert(err == nil, "new-ok")
	flt := dest.Filter()

	const start = 100
	node := jrpc2.ZZHonest(start, 1)
	if withEvent == 1 {
		jrpc2.ZZSetTopic0(dest.Event.SignatureHash())
		// the log's data is the single non-indexed uint256 input
		node.LogData = zzvrf.Bytes("node.abi_word", 32, 32)
	}
	c := jrpc2.New("http://nocache")
	ctx := wctx.WithSrcName(wctx.WithChainID(context.Background(), 7), "s")
	blocks, gerr := c.Get(ctx, "http://nocache", &flt, start, 1)
	zzvrf.Assert(gerr == nil, "fetch-ok")
	if gerr != nil {
		return
	}
	sink := &zzCopySink{}
	_, ierr := dest.Insert(ctx, &sync.Mutex{}, sink, blocks)
	zzvrf.Assert(ierr == nil, "insert-ok")
	if ierr != nil {
		return
	}
	isTrace := false
	for _, n := range names {
		if len(n) > 6 && n[:6] == "trace_" {
			isTrace = true
		}
	}
	_ = isTrace
	zzvrf.Assert(len(sink.rows) == 1, "one-item-one-row")
	if len(sink.rows) != 1 {
		return
	}
	row := sink.rows[0]
	for j, col := range sink.cols {
		v := row[j]
		ok := true
		switch col {
		case "block_hash":
			ok = zzBytesIs(v, node.BlockHash)
		case "block_num":
			ok = zzU64Is(v, start)
		case "block_time":
			ok = zzU64Is(v, node.BlockTime)
		case "tx_hash":
			ok = zzBytesIs(v, node.TxHash)
		case "tx_idx":
			ok = zzU64Is(v, 0)
		case "tx_signer":
			ok = zzBytesIs(v, node.TxFrom)
		case "tx_to":
			ok = zzBytesIs(v, node.TxTo)
		case "tx_value":
			ok = zzU256Is(v, node.TxValue)
		case "tx_input":
			ok = zzBytesIs(v, node.TxInput)
		case "tx_type":
			ok = zzU64Is(v, uint64(node.TxType))
		case "tx_status":
			ok = zzU64Is(v, uint64(node.TxStatus))
		case "tx_gas_used":
			ok = zzU64Is(v, node.TxGasUsed)
		case "tx_gas_price":
			ok = zzU256Is(v, node.TxGasPrice)
		case "tx_effective_gas_price":
			ok = zzU256Is(v, node.TxEffGasPrice)
		case "tx_contract_address":
			ok = zzBytesIs(v, node.TxContractAddr)
		case "tx_max_priority_fee_per_gas":
			ok = zzU256Is(v, node.TxMaxPrio)
		case "tx_max_fee_per_gas":
			ok = zzU256Is(v, node.TxMaxFee)
		case "tx_nonce":
			ok = zzU64Is(v, node.TxNonce)
		case "log_idx":
			ok = zzU64Is(v, node.LogIdx)
		case "log_addr":
			ok = zzBytesIs(v, node.LogAddr)
		case "trace_action_call_type":
			s, isS := v.(string)
			ok = isS && s == "call"
		case "trace_action_idx":
			ok = zzU64Is(v, 0)
		case "trace_action_from":
			ok = zzBytesIs(v, node.TraceFrom)
		case "trace_action_to":
			ok = zzBytesIs(v, node.TraceTo)
		case "trace_action_value":
			ok = zzU256Is(v, node.TraceValue)
		case "chain_id":
			ok = zzU64Is(v, 7)
		case "src_name":
			s, isS := v.(string)
			ok = isS && s == "s"
		case "ig_name":
			s, isS := v.(string)
			ok = isS && s == "ig"
		default:
			continue
		}
		zzvrf.Event("column " + col)
		zzvrf.Assert(ok, "stored-column-equals-what-the-source-reports:"+col)
	}
	zzvrf.Reach("end")
}
