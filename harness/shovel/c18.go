package shovel

import (
	"github.com/indexsupply/shovel/zzvrf"
)

// ZZ_C18_Load: the partition goroutines of Task.load (and Task.insert) under
// the race query: every pair of conflicting accesses of different goroutines
// must be ordered by fork/join or a common lock in every schedule.
func ZZ_C18_Load(batch, conc int) {
	zzReset()
	zzvrf.Unwind(batch + 3)
	head := zzvrf.U64("head")
	zzvrf.Assume(head > 1 && head < 1<<62)
	src := &zzSource{withHash: true, headFixed: true, head: head}
	pre := zzPreState("s", "ig", 1, 1)
	zzvrf.Assume(head >= pre.cur[0].num+uint64(batch))
	t := zzTask(src, "s", "ig", batch, conc, 0, 0, nil)
	zzvrf.RaceRecord(true)
	err, panicked := zzConverge(t)
	zzvrf.RaceRecord(false)
	zzvrf.Assert(!panicked && err == nil, "step-completes")
	zzvrf.RaceCheck("no-data-race")
	zzvrf.Reach("end")
}
