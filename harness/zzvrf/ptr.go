package zzvrf

import "unsafe"

func uintptrOf(b []byte) uintptr { return uintptr(unsafe.Pointer(unsafe.SliceData(b))) }
