// Package zzvrf holds the verification intrinsics. Under the symbolic engine
// (gosym) every function here is intercepted. Compiled natively, the same
// functions read a counterexample (tag -> value) from $ZZVRF_REPLAY so that a
// harness is an ordinary Go function whose solver-found inputs can be replayed
// against the real build.
package zzvrf

import (
	"crypto/sha256"
	"encoding/binary"
	"encoding/hex"
	"encoding/json"
	"fmt"
	"os"
	"runtime"
	"strconv"
)

var (
	loaded  bool
	vals    map[string]any
	counts  = map[string]int{}
	picks   []any
	pickPos int
	flags   = map[string]bool{}

	Failed []string // assertion ids that failed natively
	Log    []string // outcome lines (assert/reach), compared with the engine's concrete mode
)

type AssumeFailed struct{ ID string }

func Reset() {
	loaded = false
	vals = nil
	counts = map[string]int{}
	picks = nil
	pickPos = 0
	Failed = nil
	Log = nil
}

func load() {
	if loaded {
		return
	}
	loaded = true
	vals = map[string]any{}
	p := os.Getenv("ZZVRF_REPLAY")
	if p == "" {
		return
	}
	b, err := os.ReadFile(p)
	if err != nil {
		panic(err)
	}
	var doc struct {
		Model map[string]any  `json:"model"`
		Flags map[string]bool `json:"flags"`
	}
	if err := json.Unmarshal(b, &doc); err != nil {
		panic(err)
	}
	vals = doc.Model
	if vals == nil {
		vals = map[string]any{}
	}
	for k, v := range doc.Flags {
		flags[k] = v
	}
	picks, _ = vals["__picks"].([]any)
}

func name(tag string) string {
	n := counts[tag]
	counts[tag] = n + 1
	if n > 0 {
		return fmt.Sprintf("%s#%d", tag, n)
	}
	return tag
}

func num(tag string) uint64 {
	load()
	switch x := vals[name(tag)].(type) {
	case float64:
		return uint64(x)
	case string:
		n, _ := strconv.ParseUint(x, 0, 64)
		return n
	case bool:
		if x {
			return 1
		}
	}
	return 0
}

func U64(tag string) uint64 { return num(tag) }
func I64(tag string) int64  { return int64(num(tag)) }
func Int(tag string) int    { return int(num(tag)) }
func U32(tag string) uint32 { return uint32(num(tag)) }
func U16(tag string) uint16 { return uint16(num(tag)) }
func U8(tag string) byte    { return byte(num(tag)) }
func Bool(tag string) bool  { return num(tag) != 0 }

// Bytes returns a byte slice of concrete length n and capacity c whose
// content (through the capacity) is symbolic.
func Bytes(tag string, n, c int) []byte {
	load()
	if c < n {
		c = n
	}
	b := make([]byte, c)
	if s, ok := vals[name(tag)].(string); ok {
		d, _ := hex.DecodeString(s)
		copy(b, d)
	}
	return b[:n:c]
}

// WithTail returns a copy of base (same len and cap) whose bytes beyond len
// are independent symbolic bytes.
func WithTail(base []byte, tag string) []byte {
	t := Bytes(tag, cap(base), cap(base))
	out := make([]byte, len(base), cap(base))
	copy(out, base)
	copy(out[len(base):cap(base)], t[len(base):])
	return out
}

// Hash32 is an injective function (a, b) -> 32 bytes ("no hash collisions").
// The engine treats it as an uninterpreted function with distinctness axioms.
func Hash32(tag string, a, b uint64) []byte {
	var buf [16]byte
	binary.BigEndian.PutUint64(buf[:8], a)
	binary.BigEndian.PutUint64(buf[8:], b)
	h := sha256.Sum256(append([]byte(tag), buf[:]...))
	return h[:]
}

// Str returns a string of concrete length n with symbolic content.
func Str(tag string, n int) string { return string(Bytes(tag, n, n)) }

// Pick is an enumerated (case-split, not solver-quantified) choice in [0,n).
func Pick(tag string, n int) int {
	load()
	_ = tag
	k := pickPos
	pickPos++
	if k < len(picks) {
		if f, ok := picks[k].(float64); ok {
			return int(f)
		}
	}
	return 0
}

func Assume(c bool) {
	if !c {
		panic(AssumeFailed{})
	}
}

func Assert(c bool, id string) {
	Log = append(Log, fmt.Sprintf("assert %s %v", id, c))
	if !c {
		Failed = append(Failed, id)
	}
}

func Reach(id string) { Log = append(Log, "reach "+id) }

func And(a, b bool) bool     { return a && b }
func Or(a, b bool) bool      { return a || b }
func Not(a bool) bool        { return !a }
func Implies(a, b bool) bool { return !a || b }

func Ite[T any](c bool, a, b T) T {
	if c {
		return a
	}
	return b
}

var (
	allocBase  uint64
	allocLimit int
)

// AllocLimit: from here on, allocations whose size comes from the data must
// stay within n elements (engine: checked at every symbolic-size allocation;
// native: measured with runtime.MemStats by AllocCheck).
func AllocLimit(n int) {
	var m runtime.MemStats
	runtime.ReadMemStats(&m)
	allocBase, allocLimit = m.TotalAlloc, n
}

func AllocCheck(id string) {
	var m runtime.MemStats
	runtime.ReadMemStats(&m)
	Assert(m.TotalAlloc-allocBase <= uint64(allocLimit)*64+1<<20, id)
}

// RaceRecord / RaceCheck: engine-side race query over the recorded
// synchronisation events; natively the harness is run under -race.
func RaceRecord(on bool)  {}
func RaceCheck(id string) {}

// Scheduled: from here on goroutines are interleaved by the engine at
// synchronisation operations (natively: real goroutines). Yield is an
// explicit scheduling point (natively runtime.Gosched).
func Scheduled(budget, maxPoints int) {}
func Yield()                          { runtime.Gosched() }

// SchedFreeze(true): until SchedFreeze(false) the engine's scheduler makes
// no enumerated decisions (at every scheduling point the lowest-numbered
// eligible thread continues) and scheduling points are not counted towards
// the bound. Used to run a set-up phase along one representative schedule.
func SchedFreeze(on bool) {}

func Unwind(n int)          {}
func Flag(name string) bool { load(); return flags[name] }
func Event(s string)        {}
func GoInline(on bool)      {}
func Symbolic() bool        { return false }
func PanicPos() string      { return "" }

// TextDependsOn: the text was built from the hostile byte c (engine: the
// text is not a constant; native: the byte value occurs in it).
func TextDependsOn(s string, c byte) bool {
	for i := 0; i < len(s); i++ {
		if s[i] == c {
			return true
		}
	}
	return false
}

func BytesEq(a, b []byte) bool { return string(a) == string(b) }

// IsSubslice reports whether sub lies inside base[0:len(base)] of the same
// backing array.
func IsSubslice(sub, base []byte) bool {
	if sub == nil || cap(sub) == 0 {
		return true
	}
	if cap(base) == 0 {
		return len(sub) == 0
	}
	bp := uintptrOf(base)
	sp := uintptrOf(sub)
	return sp >= bp && sp+uintptr(len(sub)) <= bp+uintptr(len(base))
}

func OffsetIn(sub, base []byte) int { return int(uintptrOf(sub) - uintptrOf(base)) }
