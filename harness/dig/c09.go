package dig

import (
	"strings"

	"github.com/indexsupply/shovel/zzvrf"
)

// ---- reference ABI encoder (independent of the code under test) ----

type zzVal struct {
	word  []byte  // static leaf: 32 bytes
	dyn   []byte  // dynamic leaf (bytes/string): content
	elems []zzVal // array elements or tuple fields
}

type zzTy struct {
	kind  byte // 's' static leaf, 'd' dynamic leaf, 'a' array, 't' tuple
	n     int  // array: fixed length (0 = dynamic)
	elem  *zzTy
	flds  []zzTy
	sel   bool
	named string
}

// zzParse is the reference reading of a Solidity type string + components.
func zzParse(in Input) zzTy {
	typ := in.Type
	// split array suffixes, outermost last
	var dims []int
	for strings.HasSuffix(typ, "]") {
		i := strings.LastIndex(typ, "[")
		num := typ[i+1 : len(typ)-1]
		k := 0
		for _, c := range num {
			k = k*10 + int(c-'0')
		}
		dims = append(dims, k)
		typ = typ[:i]
	}
	var base zzTy
	switch {
	case typ == "tuple":
		base = zzTy{kind: 't'}
		for _, c := range in.Components {
			base.flds = append(base.flds, zzParse(c))
		}
	case typ == "bytes" || typ == "string":
		base = zzTy{kind: 'd'}
	default:
		base = zzTy{kind: 's'}
	}
	base.sel = len(in.Column) > 0
	// dims were collected outermost first; innermost must wrap first
	for i := len(dims) - 1; i >= 0; i-- {
		b := base
		base = zzTy{kind: 'a', n: dims[i], elem: &b}
	}
	return base
}

func (t zzTy) dynamic() bool {
	switch t.kind {
	case 'd':
		return true
	case 'a':
		return t.n == 0 || t.elem.dynamic()
	case 't':
		for _, f := range t.flds {
			if f.dynamic() {
				return true
			}
		}
	}
	return false
}

var zzCounter int

func zzGen(t zzTy, alen, blen int) zzVal {
	zzCounter++
	switch t.kind {
	case 's':
		return zzVal{word: zzvrf.Bytes("w", 32, 32)}
	case 'd':
		return zzVal{dyn: zzvrf.Bytes("d", blen, blen)}
	case 'a':
		n := t.n
		if n == 0 {
			n = alen
		}
		v := zzVal{}
		for i := 0; i < n; i++ {
			v.elems = append(v.elems, zzGen(*t.elem, alen, blen))
		}
		return v
	default:
		v := zzVal{}
		for _, f := range t.flds {
			v.elems = append(v.elems, zzGen(f, alen, blen))
		}
		return v
	}
}

func zzWord(n int) []byte {
	w := make([]byte, 32)
	for i := 0; i < 8; i++ {
		w[31-i] = byte(n >> (8 * uint(i)))
	}
	return w
}

func zzEncSeq(ts []zzTy, vs []zzVal) []byte {
	headLen := 0
	for _, t := range ts {
		if t.dynamic() {
			headLen += 32
		} else {
			headLen += len(zzEnc(t, zzZero(t)))
		}
	}
	var head, tail []byte
	for i, t := range ts {
		if t.dynamic() {
			head = append(head, zzWord(headLen+len(tail))...)
			tail = append(tail, zzEnc(t, vs[i])...)
		} else {
			head = append(head, zzEnc(t, vs[i])...)
		}
	}
	return append(head, tail...)
}

func zzZero(t zzTy) zzVal {
	switch t.kind {
	case 's':
		return zzVal{word: make([]byte, 32)}
	case 'd':
		return zzVal{}
	case 'a':
		v := zzVal{}
		for i := 0; i < t.n; i++ {
			v.elems = append(v.elems, zzZero(*t.elem))
		}
		return v
	default:
		v := zzVal{}
		for _, f := range t.flds {
			v.elems = append(v.elems, zzZero(f))
		}
		return v
	}
}

func zzEnc(t zzTy, v zzVal) []byte {
	switch t.kind {
	case 's':
		return append([]byte(nil), v.word...)
	case 'd':
		out := zzWord(len(v.dyn))
		out = append(out, v.dyn...)
		for len(out)%32 != 0 {
			out = append(out, 0)
		}
		return out
	case 'a':
		ts := make([]zzTy, len(v.elems))
		for i := range ts {
			ts[i] = *t.elem
		}
		body := zzEncSeq(ts, v.elems)
		if t.n == 0 {
			return append(zzWord(len(v.elems)), body...)
		}
		return body
	default:
		return zzEncSeq(t.flds, v.elems)
	}
}

// ---- reference row rule ----

type zzRow [][]byte

func (t zzTy) ncols() int {
	switch t.kind {
	case 'a':
		return t.elem.ncols()
	case 't':
		n := 0
		for _, f := range t.flds {
			n += f.ncols()
		}
		return n
	}
	if t.sel {
		return 1
	}
	return 0
}

func (t zzTy) hasArray() bool {
	switch t.kind {
	case 'a':
		return true
	case 't':
		for _, f := range t.flds {
			if f.hasArray() {
				return true
			}
		}
	}
	return false
}

// zzFill writes the selected leaves of v (no arrays inside) into row at col.
func zzFill(t zzTy, v zzVal, row zzRow, col int) int {
	switch t.kind {
	case 's':
		if t.sel {
			row[col] = v.word
			col++
		}
	case 'd':
		if t.sel {
			row[col] = v.dyn
			col++
		}
	case 't':
		for i, f := range t.flds {
			col = zzFill(f, v.elems[i], row, col)
		}
	}
	return col
}

// zzRows: one row per element of each innermost selected array; columns not
// belonging to that array stay nil (scalars are broadcast afterwards).
func zzRows(t zzTy, v zzVal, ncols, col int, rows *[]zzRow, single zzRow) int {
	switch t.kind {
	case 'a':
		if t.ncols() == 0 {
			return col
		}
		for _, ev := range v.elems {
			if t.elem.hasArray() {
				zzRows(*t.elem, ev, ncols, col, rows, single)
			} else {
				r := make(zzRow, ncols)
				zzFill(*t.elem, ev, r, col)
				*rows = append(*rows, r)
			}
		}
		return col + t.ncols()
	case 't':
		for i, f := range t.flds {
			col = zzRows(f, v.elems[i], ncols, col, rows, single)
		}
		return col
	default:
		return zzFill(t, v, single, col)
	}
}

// ZZ_C09_Decode: encode symbolic values of catalogue entry `shape` with the
// reference encoder, decode with the real decoder, compare rows.
func ZZ_C09_Decode(shape, alen, blen int) {
	ins := zzCatalogue(shape)
	ev := Event{Name: "e", Inputs: ins}
	real := ev.ABIType()
	r := NewResult(real)

	top := zzTy{kind: 't'}
	for _, in := range ins {
		top.flds = append(top.flds, zzParse(in))
	}
	for round := 0; round < 4; round++ {
		// later rounds reuse the same Result: other values and lengths, then
		// the first lengths again with EMPTY byte strings (cells left unassigned
		// must not keep what an earlier log put there), then the first again
		al, bl := alen, blen
		switch round {
		case 1:
			al, bl = (alen+1)%3, (blen+31)%40
		case 2:
			bl = 0
		}
		val := zzGen(top, al, bl)
		data := zzEnc(top, val)
		ncols := top.ncols()
		var want []zzRow
		single := make(zzRow, ncols)
		zzRows(top, val, ncols, 0, &want, single)
		if len(want) == 0 {
			want = append(want, make(zzRow, ncols))
		}
		for _, w := range want {
			for j := range w {
				if len(single[j]) > 0 {
					w[j] = single[j]
				}
			}
		}
		err, panicked := zzScan(r, data)
		zzvrf.Assert(!panicked, "no-panic-on-valid-encoding")
		if panicked {
			return
		}
		zzvrf.Assert(err == nil, "valid-encoding-accepted")
		if err != nil {
			return
		}
		zzvrf.Assert(r.Len() == len(want), "row-count")
		if r.Len() != len(want) {
			return
		}
		for i := range want {
			got := r.At(i)
			zzvrf.Assert(len(got) == ncols, "column-count")
			for j := 0; j < ncols && j < len(got); j++ {
				zzvrf.Assert(zzvrf.BytesEq(got[j], want[i][j]), "cell-equals-encoded-value")
			}
		}
	}
	zzvrf.Reach("end")
}

// ZZ_C09_Parse: type-string parser against the reference reading. The array
// length digits are symbolic ASCII digits.
func ZZ_C09_Parse(base, form, nd int) {
	bases := []string{"uint256", "bytes32", "bytes", "string", "address", "bool", "int8", "bytes1"}
	b := bases[base]
	digits := zzvrf.Str("digits", nd)
	k := 0
	for i := 0; i < nd; i++ {
		c := digits[i]
		zzvrf.Assume(c >= '0' && c <= '9')
		if i == 0 {
			zzvrf.Assume(c != '0')
		}
		k = k*10 + int(c-'0')
	}
	var typ string
	var wantDims []int // outermost first
	switch form {
	case 0: // T[k]
		typ = b + "[" + digits + "]"
		wantDims = []int{k}
	case 1: // T[]
		typ = b + "[]"
		wantDims = []int{0}
	case 2: // T[k][]
		typ = b + "[" + digits + "][]"
		wantDims = []int{0, k}
	case 3: // T[][k]
		typ = b + "[][" + digits + "]"
		wantDims = []int{k, 0}
	case 4: // T
		typ = b
	}
	in := Input{Name: "x", Type: typ, Column: "c"}
	var t atype
	panicked := false
	func() {
		defer func() {
			if r := recover(); r != nil {
				panicked = true
			}
		}()
		_, t = in.ABIType(0)
	}()
	zzvrf.Assert(!panicked, "no-panic-parse")
	if panicked {
		return
	}
	cur := &t
	for _, d := range wantDims {
		zzvrf.Assert(cur.kind == 'a', "array-kind")
		if cur.kind != 'a' {
			return
		}
		zzvrf.Assert(cur.length == d, "array-length-equals-digits")
		cur = cur.elem
	}
	wantDyn := b == "bytes" || b == "string"
	if wantDyn {
		zzvrf.Assert(cur.kind == 'd', "dynamic-base")
	} else {
		zzvrf.Assert(cur.kind == 's' && cur.static && cur.size == 32, "static-base")
	}
	zzvrf.Assert(cur.sel && cur.pos == 0, "selection-on-leaf")
	// static-ness and size of the whole type
	allFixed := true
	size := 32
	for i := len(wantDims) - 1; i >= 0; i-- {
		if wantDims[i] == 0 {
			allFixed = false
		}
		size *= wantDims[i]
	}
	if len(wantDims) > 0 {
		zzvrf.Assert(t.static == (allFixed && !wantDyn), "static-flag")
		if allFixed && !wantDyn {
			zzvrf.Assert(t.size == size, "static-size")
		}
	}
	zzvrf.Reach("end")
}
