package dig

import "github.com/indexsupply/shovel/wpg"

// zzIn builds an Input; sel selects it (gives it a column).
func zzIn(typ string, sel bool, comps ...Input) Input {
	in := Input{Name: "f", Type: typ, Components: comps}
	if sel {
		in.Column = "c"
	}
	return in
}

// zzCatalogue: event input lists (all non-indexed) covering the type domain of
// C09/C10. Built by the REAL Input.ABIType / Event.ABIType, so parser defects
// propagate into the decoder checks.
func zzCatalogue(shape int) []Input {
	switch shape {
	case 0:
		return []Input{zzIn("uint256", true)}
	case 1:
		return []Input{zzIn("bytes", true)}
	case 2:
		return []Input{zzIn("string", true), zzIn("uint256", true)}
	case 3:
		return []Input{zzIn("uint256[]", true)}
	case 4:
		return []Input{zzIn("uint256[2]", true)}
	case 5:
		return []Input{zzIn("tuple", false, zzIn("uint256", true), zzIn("bytes", true))}
	case 6:
		return []Input{zzIn("tuple[]", false, zzIn("uint256", false), zzIn("bytes", true))}
	case 7:
		return []Input{zzIn("uint256[][]", true)}
	case 8:
		return []Input{zzIn("string[]", true)}
	case 9:
		return []Input{zzIn("uint256", false), zzIn("bytes", true), zzIn("address", true)}
	case 10:
		return []Input{zzIn("tuple", false, zzIn("uint8[]", true), zzIn("address", true))}
	case 11:
		return []Input{zzIn("bytes32[2][]", true)}
	case 12:
		return []Input{zzIn("tuple", false, zzIn("tuple", false, zzIn("bytes", true), zzIn("uint256", false)), zzIn("uint256", true))}
	case 13:
		return []Input{zzIn("bytes[]", true)}
	case 14:
		return []Input{zzIn("uint256[]", false), zzIn("string", true)}
	case 15:
		return []Input{zzIn("tuple[2]", false, zzIn("uint256", true), zzIn("bool", true))}
	case 16:
		return []Input{zzIn("string[2]", true)}
	case 17:
		return []Input{zzIn("bytes", false), zzIn("uint256[3]", false), zzIn("bytes", true)}
	case 18: // fixed array of tuples mixing static and dynamic members: dynamic although its inline size is not 0
		return []Input{zzIn("tuple[2]", false, zzIn("uint256", true), zzIn("string", true))}
	case 19: // the same, unselected, followed by a selected static field (read from the right slot?)
		return []Input{zzIn("tuple[2]", false, zzIn("uint256", false), zzIn("string", false)), zzIn("uint256", true)}
	case 20: // tuple holding a fixed static array and a dynamic leaf
		return []Input{zzIn("tuple", false, zzIn("uint256[2]", true), zzIn("bytes", true)), zzIn("uint256", true)}
	case 21: // dynamic array of fixed arrays of a mixed tuple
		return []Input{zzIn("tuple[1][]", false, zzIn("bytes", true), zzIn("uint256", true))}
	case 22: // an unselected static composite is skipped without being read; the next static field is
		return []Input{zzIn("uint256[3]", false), zzIn("uint256", true)}
	case 23: // unselected static tuple, then a selected static field and a selected dynamic one
		return []Input{zzIn("tuple", false, zzIn("uint256", false), zzIn("address", false)), zzIn("address", true), zzIn("bytes", true)}
	case 24: // a nested tuple with two selected leaves, then a selected leaf of the outer tuple (column numbering)
		return []Input{zzIn("tuple", false, zzIn("tuple", false, zzIn("uint256", true), zzIn("bytes", true)), zzIn("uint256", true))}
	case 25: // the same with a nested array of tuples
		return []Input{zzIn("tuple", false, zzIn("tuple[]", false, zzIn("uint256", true), zzIn("address", true)), zzIn("uint256", true))}
	}
	return nil
}

const zzCatalogueSize = 26

func wpgTable(name string, cols ...string) wpg.Table {
	t := wpg.Table{Name: name}
	for _, c := range cols {
		t.Columns = append(t.Columns, wpg.Column{Name: c, Type: "bytea"})
	}
	return t
}
