package dig

import "github.com/indexsupply/shovel/zzvrf"

func zzScan(r *Result, data []byte) (err error, panicked bool) {
	defer func() {
		if x := recover(); x != nil {
			panicked = true
		}
	}()
	err = r.Scan(data)
	return
}

// ZZ_C10_Scan: any n bytes (capacity n+extra, content through the capacity
// symbolic) decoded with the type tree of catalogue entry `shape`.
func ZZ_C10_Scan(shape, n, extra int) {
	ev := Event{Name: "e", Inputs: zzCatalogue(shape)}
	t := ev.ABIType()
	r := NewResult(t)
	data := zzvrf.Bytes("data", n, n+extra)
	zzvrf.Unwind(n/32 + 3)
	zzvrf.AllocLimit(n + 64)
	err, panicked := zzScan(r, data)
	zzvrf.AllocCheck("allocation-bounded-by-input-size")
	zzvrf.Assert(!panicked, "no-panic")
	if panicked {
		return
	}
	if err == nil {
		rows := r.Len()
		bound := n/32 + 1
		zzvrf.Assert(rows <= bound*bound, "rows-bounded-by-input-size")
		for i := 0; i < rows; i++ {
			row := r.At(i)
			for j := range row {
				zzvrf.Assert(zzvrf.IsSubslice(row[j], data), "value-inside-input")
			}
		}
	}
	if extra > 0 {
		// 2-safety: the outcome must not depend on bytes beyond len(data)
		// (stale capacity of a reused buffer).
		other := zzvrf.WithTail(data, "other")
		r2 := NewResult(t)
		err2, panicked2 := zzScan(r2, other)
		if !panicked2 {
			zzvrf.Assert((err == nil) == (err2 == nil), "outcome-independent-of-bytes-beyond-input")
		}
	}
	zzvrf.Reach("end")
}
