package dig

import (
	"context"
	"sync"

	"github.com/holiman/uint256"
	"github.com/indexsupply/shovel/eth"
	"github.com/indexsupply/shovel/wctx"
	"github.com/indexsupply/shovel/wpg"
	"github.com/indexsupply/shovel/zzvrf"
)

var zzLeafTypes = []string{"uint256", "address", "bool", "bytes32", "int256", "uint8"}

// zzLayout builds an event with 3 inputs. Bits of `layout`: input i is indexed
// if bit 2i is set and selected if bit 2i+1 is set. `types` picks the ABI type
// of each input (base-6 digits into zzLeafTypes).
func zzLayout(layout, types int) (Event, wpg.Table) {
	ev := Event{Name: "Ev", Type: "event"}
	tbl := wpg.Table{Name: "t"}
	for i := 0; i < 3; i++ {
		in := Input{Name: string(rune('a' + i)), Type: zzLeafTypes[types%6]}
		types /= 6
		in.Indexed = layout&(1<<(2*uint(i))) != 0
		if layout&(1<<(2*uint(i)+1)) != 0 {
			in.Column = "c_" + in.Name
			tbl.Columns = append(tbl.Columns, wpg.Column{Name: in.Column, Type: "bytea"})
		}
		ev.Inputs = append(ev.Inputs, in)
	}
	return ev, tbl
}

type zzLog struct {
	lwc    *logWithCtx
	topics [][]byte
	data   []byte
	b      *eth.Block
}

// zzMakeLog builds block/tx/log with symbolic fields; nt topics; data given.
func zzMakeLog(nt int, data []byte) zzLog {
	b := &eth.Block{}
	b.Header.Number = eth.Uint64(zzvrf.U64("block_num"))
	b.Header.Hash = zzvrf.Bytes("block_hash", 32, 32)
	b.Header.Time = eth.Uint64(zzvrf.U64("block_time"))
	b.Txs = make(eth.Txs, 1)
	t := &b.Txs[0]
	t.Idx = eth.Uint64(zzvrf.U64("tx_idx"))
	t.PrecompHash = zzvrf.Bytes("tx_hash", 32, 32)
	t.From = zzvrf.Bytes("tx_from", 20, 20)
	t.To = zzvrf.Bytes("tx_to", 20, 20)
	t.Nonce = eth.Uint64(zzvrf.U64("tx_nonce"))
	t.Logs = make(eth.Logs, 1)
	l := &t.Logs[0]
	l.Idx = eth.Uint64(zzvrf.U64("log_idx"))
	l.Address = zzvrf.Bytes("log_addr", 20, 20)
	var topics [][]byte
	for i := 0; i < nt; i++ {
		tp := zzvrf.Bytes("topic", 32, 32)
		topics = append(topics, tp)
		l.Topics = append(l.Topics, eth.Bytes(tp))
	}
	l.Data = data
	ctx := wctx.WithSrcName(context.Background(), "src1")
	ctx = wctx.WithChainID(ctx, 7)
	ctx = wctx.WithIGName(ctx, "ig1")
	return zzLog{lwc: &logWithCtx{ctx: ctx, b: b, t: t, l: l}, topics: topics, data: data, b: b}
}

func zzU256(b []byte) uint256.Int {
	// reference: big-endian bytes (<= 32) to 4 little-endian limbs
	var z uint256.Int
	n := len(b)
	for i := 0; i < n && i < 32; i++ {
		limb := i / 8
		z[limb] |= uint64(b[n-1-i]) << (8 * uint(i%8))
	}
	return z
}

// zzCheckCell compares one emitted cell with the reference typing of `want`
// (the 32-byte word the input carries).
func zzCheckCell(typ string, got any, want []byte, id string) {
	switch typ {
	case "uint256", "uint8":
		x, ok := got.(*uint256.Int)
		zzvrf.Assert(ok, id+"-type")
		if ok {
			ref := zzU256(want)
			zzvrf.Assert(zzvrf.And(zzvrf.And(x[0] == ref[0], x[1] == ref[1]), zzvrf.And(x[2] == ref[2], x[3] == ref[3])), id)
		}
	case "int256":
		x, ok := got.(*negInt)
		zzvrf.Assert(ok, id+"-type")
		if ok {
			ref := zzU256(want)
			zzvrf.Assert(zzvrf.And(zzvrf.And(x.i[0] == ref[0], x.i[1] == ref[1]), zzvrf.And(x.i[2] == ref[2], x.i[3] == ref[3])), id)
		}
	case "address":
		x, ok := got.([]byte)
		zzvrf.Assert(ok, id+"-type")
		if ok {
			zzvrf.Assert(zzvrf.BytesEq(x, want[12:]), id)
		}
	case "bool":
		x, ok := got.(bool)
		zzvrf.Assert(ok, id+"-type")
		if ok {
			zzvrf.Assert(x == (want[31] == 1), id)
		}
	case "bytes32":
		x, ok := got.([]byte)
		zzvrf.Assert(ok, id+"-type")
		if ok {
			zzvrf.Assert(zzvrf.BytesEq(x, want), id)
		}
	}
}

// ZZ_C11_Log: one log against an event layout. Also decides the C13 gate.
//   nt    number of topics of the log (0..5)
//   match 1: topic0 is forced to the signature hash; 0: arbitrary
func ZZ_C11_Log(layout, types, nt, match int) {
	ev, tbl := zzLayout(layout, types)
	bds := []BlockData{
		{Name: "block_num", Column: "block_num"},
		{Name: "log_idx", Column: "log_idx"},
		{Name: "log_addr", Column: "log_addr"},
		{Name: "tx_hash", Column: "tx_hash"},
		{Name: "abi_idx", Column: "abi_idx"},
		{Name: "ig_name", Column: "ig_name"},
		{Name: "src_name", Column: "src_name"},
	}
	for _, bd := range bds {
		tbl.Columns = append(tbl.Columns, wpg.Column{Name: bd.Column, Type: "x"})
	}
	ig, err := New("ig1", ev, bds, tbl, Notification{}, "")
	zzvrf.Assert(err == nil, "new-ok")

	// data: one word per non-indexed input (all leaf types here are static)
	nNon, nIdx := 0, 0
	for _, in := range ev.Inputs {
		if in.Indexed {
			nIdx++
		} else {
			nNon++
		}
	}
	data := zzvrf.Bytes("data", 32*nNon, 32*nNon)
	lg := zzMakeLog(nt, data)
	if match == 1 && nt > 0 {
		copy(lg.lwc.l.Topics[0], ig.sighash)
	}
	var rows [][]any
	var perr error
	panicked := false
	func() {
		defer func() {
			if r := recover(); r != nil {
				panicked = true
			}
		}()
		rows, perr = ig.processLog(nil, lg.lwc, &sync.Mutex{}, nil)
	}()
	zzvrf.Assert(!panicked, "no-panic")
	if panicked {
		return
	}
	// C13 gate
	gateOpen := nt == nIdx+1
	if gateOpen {
		gateOpen = zzvrf.BytesEq(lg.lwc.l.Topics[0], ig.sighash)
	}
	if len(rows) > 0 {
		zzvrf.Assert(gateOpen, "rows-only-for-declared-event")
	}
	nSelNonIdx := 0
	for _, in := range ev.Inputs {
		if !in.Indexed && len(in.Column) > 0 {
			nSelNonIdx++
		}
	}
	if gateOpen && perr == nil {
		if nNon == 0 || nSelNonIdx > 0 || nNon > 0 {
			zzvrf.Assert(len(rows) == 1, "declared-event-yields-its-row")
		}
	}
	if gateOpen {
		zzvrf.Reach("gate-open")
	}
	if len(rows) != 1 {
		zzvrf.Reach("end")
		return
	}
	// C11 cell values
	row := rows[0]
	zzvrf.Assert(len(row) == len(ig.Columns), "row-width")
	col := 0
	ordIdx, ordNon := 0, 0
	for _, in := range ev.Inputs {
		var want []byte
		if in.Indexed {
			want = lg.topics[1+ordIdx]
			ordIdx++
		} else {
			want = data[32*ordNon : 32*ordNon+32]
			ordNon++
		}
		if len(in.Column) == 0 {
			continue
		}
		if in.Indexed {
			zzCheckCell(in.Type, row[col], want, "indexed-input-from-its-own-topic")
		} else {
			zzCheckCell(in.Type, row[col], want, "input-value-from-data")
		}
		col++
	}
	// block fields, in declaration order
	bn, ok := row[col].(uint64)
	zzvrf.Assert(ok && bn == lg.b.Num(), "block_num")
	li, ok := row[col+1].(eth.Uint64)
	zzvrf.Assert(ok && li == lg.lwc.l.Idx, "log_idx")
	la, ok := row[col+2].([]byte)
	zzvrf.Assert(ok && zzvrf.BytesEq(la, lg.lwc.l.Address), "log_addr")
	th, ok := row[col+3].([]byte)
	zzvrf.Assert(ok && zzvrf.BytesEq(th, lg.lwc.t.PrecompHash), "tx_hash")
	if nSelNonIdx > 0 {
		// the element index is defined for rows decoded from log data
		ai, ok := row[col+4].(int)
		zzvrf.Assert(ok && ai == 0, "abi_idx")
	}
	ign, ok := row[col+5].(string)
	zzvrf.Assert(ok && ign == "ig1", "ig_name-stamp")
	sn, ok := row[col+6].(string)
	zzvrf.Assert(ok && sn == "src1", "src_name-stamp")
	zzvrf.Reach("end")
}
