package dig

import (
	"context"
	"golang.org/x/sync/errgroup"
	"sync"

	"github.com/holiman/uint256"
	"github.com/indexsupply/shovel/eth"
	"github.com/indexsupply/shovel/wctx"
	"github.com/indexsupply/shovel/wpg"
	"github.com/indexsupply/shovel/zzvrf"
)

var zzLeafTypes = []string{"uint256", "address", "bool", "bytes32", "int256", "uint8"}

// zzLayout builds an event with 3 inputs. Bits of `layout`: input i is indexed
// if bit 2i is set and selected if bit 2i+1 is set. `types` picks the ABI type
// of each input (base-6 digits into zzLeafTypes).
func zzLayout(layout, types int) (Event, wpg.Table) {
	ev := Event{Name: "Ev", Type: "event"}
	tbl := wpg.Table{Name: "t"}
	for i := 0; i < 3; i++ {
		in := Input{Name: string(rune('a' + i)), Type: zzLeafTypes[types%6]}
		types /= 6
		in.Indexed = layout&(1<<(2*uint(i))) != 0
		if layout&(1<<(2*uint(i)+1)) != 0 {
			in.Column = "c_" + in.Name
			tbl.Columns = append(tbl.Columns, wpg.Column{Name: in.Column, Type: "bytea"})
		}
		ev.Inputs = append(ev.Inputs, in)
	}
	return ev, tbl
}

type zzLog struct {
	lwc    *logWithCtx
	topics [][]byte
	data   []byte
	b      *eth.Block
}

// zzMakeLog builds block/tx/log with symbolic fields; nt topics; data given.
func zzMakeLog(nt int, data []byte) zzLog {
	b := &eth.Block{}
	b.Header.Number = eth.Uint64(zzvrf.U64("block_num"))
	b.Header.Hash = zzvrf.Bytes("block_hash", 32, 32)
	b.Header.Time = eth.Uint64(zzvrf.U64("block_time"))
	b.Txs = make(eth.Txs, 1)
	t := &b.Txs[0]
	t.Idx = eth.Uint64(zzvrf.U64("tx_idx"))
	t.PrecompHash = zzvrf.Bytes("tx_hash", 32, 32)
	t.From = zzvrf.Bytes("tx_from", 20, 20)
	t.To = zzvrf.Bytes("tx_to", 20, 20)
	t.Nonce = eth.Uint64(zzvrf.U64("tx_nonce"))
	t.Logs = make(eth.Logs, 1)
	l := &t.Logs[0]
	l.Idx = eth.Uint64(zzvrf.U64("log_idx"))
	l.Address = zzvrf.Bytes("log_addr", 20, 20)
	var topics [][]byte
	for i := 0; i < nt; i++ {
		tp := zzvrf.Bytes("topic", 32, 32)
		topics = append(topics, tp)
		l.Topics = append(l.Topics, eth.Bytes(tp))
	}
	l.Data = data
	ctx := wctx.WithSrcName(context.Background(), "src1")
	ctx = wctx.WithChainID(ctx, 7)
	ctx = wctx.WithIGName(ctx, "ig1")
	return zzLog{lwc: &logWithCtx{ctx: ctx, b: b, t: t, l: l}, topics: topics, data: data, b: b}
}

func zzU256(b []byte) uint256.Int {
	// reference: big-endian bytes (<= 32) to 4 little-endian limbs
	var z uint256.Int
	n := len(b)
	for i := 0; i < n && i < 32; i++ {
		limb := i / 8
		z[limb] |= uint64(b[n-1-i]) << (8 * uint(i%8))
	}
	return z
}

// zzCheckCell compares one emitted cell with the reference typing of `want`
// (the 32-byte word the input carries).
func zzCheckCell(typ string, got any, want []byte, id string) {
	switch typ {
	case "uint256", "uint8", "uint64":
		x, ok := got.(*uint256.Int)
		zzvrf.Assert(ok, id+"-type")
		if ok {
			ref := zzU256(want)
			zzvrf.Assert(zzvrf.And(zzvrf.And(x[0] == ref[0], x[1] == ref[1]), zzvrf.And(x[2] == ref[2], x[3] == ref[3])), id)
		}
	case "int256":
		x, ok := got.(*negInt)
		zzvrf.Assert(ok, id+"-type")
		if ok {
			ref := zzU256(want)
			zzvrf.Assert(zzvrf.And(zzvrf.And(x.i[0] == ref[0], x.i[1] == ref[1]), zzvrf.And(x.i[2] == ref[2], x.i[3] == ref[3])), id)
		}
	case "address":
		x, ok := got.([]byte)
		zzvrf.Assert(ok, id+"-type")
		if ok {
			zzvrf.Assert(zzvrf.BytesEq(x, want[12:]), id)
		}
	case "bool":
		x, ok := got.(bool)
		zzvrf.Assert(ok, id+"-type")
		if ok {
			zzvrf.Assert(x == (want[31] == 1), id)
		}
	case "bytes32":
		x, ok := got.([]byte)
		zzvrf.Assert(ok, id+"-type")
		if ok {
			zzvrf.Assert(zzvrf.BytesEq(x, want), id)
		}
	}
}

// ZZ_C11_Log: one log against an event layout. Also decides the C13 gate.
//
//	nt    number of topics of the log (0..5)
//	match 1: topic0 is forced to the signature hash; 0: arbitrary
func ZZ_C11_Log(layout, types, nt, match int) {
	ev, tbl := zzLayout(layout, types)
	bds := []BlockData{
		{Name: "block_num", Column: "block_num"},
		{Name: "log_idx", Column: "log_idx"},
		{Name: "log_addr", Column: "log_addr"},
		{Name: "tx_hash", Column: "tx_hash"},
		{Name: "abi_idx", Column: "abi_idx"},
		{Name: "ig_name", Column: "ig_name"},
		{Name: "src_name", Column: "src_name"},
	}
	for _, bd := range bds {
		tbl.Columns = append(tbl.Columns, wpg.Column{Name: bd.Column, Type: "x"})
	}
	ig, err := New("ig1", ev, bds, tbl, Notification{}, "")
	zzvrf.Assert(err == nil, "new-ok")

	// data: one word per non-indexed input (all leaf types here are static)
	nNon, nIdx := 0, 0
	for _, in := range ev.Inputs {
		if in.Indexed {
			nIdx++
		} else {
			nNon++
		}
	}
	data := zzvrf.Bytes("data", 32*nNon, 32*nNon)
	lg := zzMakeLog(nt, data)
	if match == 1 && nt > 0 {
		copy(lg.lwc.l.Topics[0], ig.sighash)
	}
	var rows [][]any
	var perr error
	panicked := false
	func() {
		defer func() {
			if r := recover(); r != nil {
				panicked = true
			}
		}()
		rows, perr = ig.processLog(nil, lg.lwc, &sync.Mutex{}, nil)
	}()
	zzvrf.Assert(!panicked, "no-panic")
	if panicked {
		return
	}
	// C13 gate
	gateOpen := nt == nIdx+1
	if gateOpen {
		gateOpen = zzvrf.BytesEq(lg.lwc.l.Topics[0], ig.sighash)
	}
	if len(rows) > 0 {
		zzvrf.Assert(gateOpen, "rows-only-for-declared-event")
	}
	nSelNonIdx := 0
	for _, in := range ev.Inputs {
		if !in.Indexed && len(in.Column) > 0 {
			nSelNonIdx++
		}
	}
	if gateOpen && perr == nil {
		if nNon == 0 || nSelNonIdx > 0 || nNon > 0 {
			zzvrf.Assert(len(rows) == 1, "declared-event-yields-its-row")
		}
	}
	if gateOpen {
		zzvrf.Reach("gate-open")
	}
	if len(rows) != 1 {
		zzvrf.Reach("end")
		return
	}
	// C11 cell values
	row := rows[0]
	zzvrf.Assert(len(row) == len(ig.Columns), "row-width")
	col := 0
	ordIdx, ordNon := 0, 0
	for _, in := range ev.Inputs {
		var want []byte
		if in.Indexed {
			want = lg.topics[1+ordIdx]
			ordIdx++
		} else {
			want = data[32*ordNon : 32*ordNon+32]
			ordNon++
		}
		if len(in.Column) == 0 {
			continue
		}
		if in.Indexed {
			zzCheckCell(in.Type, row[col], want, "indexed-input-from-its-own-topic")
		} else {
			zzCheckCell(in.Type, row[col], want, "input-value-from-data")
		}
		col++
	}
	// block fields, in declaration order
	bn, ok := row[col].(uint64)
	zzvrf.Assert(ok && bn == lg.b.Num(), "block_num")
	li, ok := row[col+1].(eth.Uint64)
	zzvrf.Assert(ok && li == lg.lwc.l.Idx, "log_idx")
	la, ok := row[col+2].([]byte)
	zzvrf.Assert(ok && zzvrf.BytesEq(la, lg.lwc.l.Address), "log_addr")
	th, ok := row[col+3].([]byte)
	zzvrf.Assert(ok && zzvrf.BytesEq(th, lg.lwc.t.PrecompHash), "tx_hash")
	if nSelNonIdx > 0 {
		// the element index is defined for rows decoded from log data
		ai, ok := row[col+4].(int)
		zzvrf.Assert(ok && ai == 0, "abi_idx")
	}
	ign, ok := row[col+5].(string)
	zzvrf.Assert(ok && ign == "ig1", "ig_name-stamp")
	sn, ok := row[col+6].(string)
	zzvrf.Assert(ok && sn == "src1", "src_name-stamp")
	zzvrf.Reach("end")
}

// ZZ_C11_Insert: Integration.Insert over a block with several items; the rows
// are read when COPY drains them (as pgx does), so values held by reference
// are observed at the time they are stored.
//
//	mode 0: transaction indexing, 2 transactions
//	mode 1: trace indexing, 1 transaction with 2 trace actions
//	mode 2: log indexing, 1 transaction with 2 logs of the event
func ZZ_C11_Insert(mode int) {
	var ev Event
	var bds []BlockData
	switch mode {
	case 0:
		bds = []BlockData{{Name: "tx_idx", Column: "tx_idx"}, {Name: "tx_value", Column: "tx_value"}, {Name: "tx_to", Column: "tx_to"}, {Name: "tx_nonce", Column: "tx_nonce"}}
	case 1:
		bds = []BlockData{{Name: "trace_action_idx", Column: "trace_action_idx"}, {Name: "trace_action_value", Column: "trace_action_value"}, {Name: "trace_action_from", Column: "trace_action_from"}, {Name: "trace_action_call_type", Column: "trace_action_call_type"}}
	case 2, 3:
		ev = Event{Name: "Ev", Inputs: []Input{{Name: "a", Type: "uint256", Indexed: true, Column: "c_a"}}}
		bds = []BlockData{{Name: "log_idx", Column: "log_idx"}, {Name: "log_addr", Column: "log_addr"}}
	}
	tbl := wpg.Table{Name: "t"}
	if mode == 2 || mode == 3 {
		tbl.Columns = append(tbl.Columns, wpg.Column{Name: "c_a", Type: "numeric"})
	}
	for _, bd := range bds {
		tbl.Columns = append(tbl.Columns, wpg.Column{Name: bd.Column, Type: "x"})
	}
	ig, err := New("ig1", ev, bds, tbl, Notification{}, "")
	zzvrf.Assert(err == nil, "new-ok")

	blocks := make([]eth.Block, 1)
	b := &blocks[0]
	b.Header.Number = eth.Uint64(zzvrf.U64("block_num"))
	ntx := 1
	if mode == 0 {
		ntx = 2
	}
	b.Txs = make(eth.Txs, ntx)
	type item struct {
		u64a, u64b uint64
		bytes      []byte
	}
	var items []item
	for ti := range b.Txs {
		t := &b.Txs[ti]
		t.Idx = eth.Uint64(zzvrf.U64("tx_idx"))
		t.PrecompHash = zzvrf.Bytes("tx_hash", 32, 32)
		switch mode {
		case 0:
			it := item{u64a: zzvrf.U64("tx_value"), u64b: zzvrf.U64("tx_nonce"), bytes: zzvrf.Bytes("tx_to", 20, 20)}
			t.Value = uint256.Int{it.u64a, 0, 0, 0}
			t.Nonce = eth.Uint64(it.u64b)
			t.To = it.bytes
			items = append(items, it)
		case 1:
			t.TraceActions = make([]eth.TraceAction, 2)
			for ai := range t.TraceActions {
				it := item{u64a: zzvrf.U64("trace_value"), u64b: uint64(ai), bytes: zzvrf.Bytes("trace_from", 20, 20)}
				t.TraceActions[ai] = eth.TraceAction{Idx: uint64(ai), From: it.bytes, CallType: "call", Value: uint256.Int{it.u64a, 0, 0, 0}}
				items = append(items, it)
			}
		case 2, 3:
			// mode 3: logs of OTHER events sit between the declared event's logs
			// (same signature hash with another topic count, and another hash):
			// they yield no row and must not disturb the rows around them
			kinds := []int{0, 0}
			if mode == 3 {
				kinds = []int{0, 1, 0, 2, 0}
			}
			t.Logs = make(eth.Logs, len(kinds))
			for li, kind := range kinds {
				it := item{u64a: zzvrf.U64("topic1.low"), u64b: zzvrf.U64("log_idx"), bytes: zzvrf.Bytes("log_addr", 20, 20)}
				topic1 := make([]byte, 32)
				for k := 0; k < 8; k++ {
					topic1[31-k] = byte(it.u64a >> (8 * uint(k)))
				}
				switch kind {
				case 0:
					t.Logs[li] = eth.Log{Idx: eth.Uint64(it.u64b), Address: it.bytes, Topics: []eth.Bytes{append([]byte(nil), ig.sighash...), topic1}}
					items = append(items, it)
				case 1: // the declared signature hash with one topic more (e.g. ERC721 vs ERC20 Transfer)
					t.Logs[li] = eth.Log{Idx: eth.Uint64(it.u64b), Address: it.bytes, Topics: []eth.Bytes{append([]byte(nil), ig.sighash...), topic1, topic1}}
				case 2: // another event
					other := zzvrf.Bytes("other-topic0", 32, 32)
					zzvrf.Assume(!zzvrf.BytesEq(other, ig.sighash))
					t.Logs[li] = eth.Log{Idx: eth.Uint64(it.u64b), Address: it.bytes, Topics: []eth.Bytes{other, topic1}}
				}
			}
		}
	}
	ctx := wctx.WithSrcName(context.Background(), "src1")
	conn := &zzConn{}
	var ierr error
	panicked := false
	func() {
		defer func() {
			if r := recover(); r != nil {
				panicked = true
			}
		}()
		_, ierr = ig.Insert(ctx, &sync.Mutex{}, conn, blocks)
	}()
	zzvrf.Assert(!panicked && ierr == nil, "no-panic-no-error")
	if panicked || ierr != nil {
		return
	}
	zzvrf.Assert(len(conn.rows) == len(items), "one-row-per-item")
	if len(conn.rows) != len(items) {
		return
	}
	col := func(name string) int {
		for i, c := range conn.cols {
			if c == name {
				return i
			}
		}
		return -1
	}
	for i, it := range items {
		row := conn.rows[i]
		switch mode {
		case 0:
			v, ok := row[col("tx_value")].(*uint256.Int)
			zzvrf.Assert(ok && v[0] == it.u64a, "tx_value-of-its-own-transaction")
			n, ok := row[col("tx_nonce")].(eth.Uint64)
			zzvrf.Assert(ok && uint64(n) == it.u64b, "tx_nonce-of-its-own-transaction")
			to, ok := row[col("tx_to")].([]byte)
			zzvrf.Assert(ok && zzvrf.BytesEq(to, it.bytes), "tx_to-of-its-own-transaction")
		case 1:
			v, ok := row[col("trace_action_value")].(*uint256.Int)
			zzvrf.Assert(ok && v[0] == it.u64a, "trace_value-of-its-own-action")
			ix, ok := row[col("trace_action_idx")].(uint64)
			zzvrf.Assert(ok && ix == it.u64b, "trace_action_idx-counts-from-zero")
			fr, ok := row[col("trace_action_from")].([]byte)
			zzvrf.Assert(ok && zzvrf.BytesEq(fr, it.bytes), "trace_from-of-its-own-action")
		case 2, 3:
			v, ok := row[col("c_a")].(*uint256.Int)
			zzvrf.Assert(ok && v[0] == it.u64a, "indexed-input-of-its-own-log")
			li, ok := row[col("log_idx")].(eth.Uint64)
			zzvrf.Assert(ok && uint64(li) == it.u64b, "log_idx-of-its-own-log")
			la, ok := row[col("log_addr")].([]byte)
			zzvrf.Assert(ok && zzvrf.BytesEq(la, it.bytes), "log_addr-of-its-own-log")
		}
	}
	zzvrf.Reach("end")
}

var zzElemTypes = []string{"address", "uint256", "int256", "uint8", "bytes32", "uint64"}

// ZZ_C11_Array: an event whose selected input is an array (T[] or T[k]) of a
// static leaf type; the log data is the reference ABI encoding (c09.go) of
// alen symbolic elements. One row per element; the cell is the element mapped
// by its leaf type (addresses 20 bytes, integers exact), abi_idx counts from 0.
//
//	elem   index into zzElemTypes
//	fixed  0: T[] with alen elements; k>0: T[k]
//	second 1: a second selected scalar input follows the array
func ZZ_C11_Array(elem, fixed, alen, second int) {
	leaf := zzElemTypes[elem]
	typ := leaf + "[]"
	n := alen
	if fixed > 0 {
		typ = leaf + "[" + string(rune('0'+fixed)) + "]"
		n = fixed
	}
	ev := Event{Name: "Ev", Type: "event"}
	tbl := wpg.Table{Name: "t"}
	ev.Inputs = append(ev.Inputs, Input{Name: "a", Type: typ, Column: "c_a"})
	tbl.Columns = append(tbl.Columns, wpg.Column{Name: "c_a", Type: "bytea"})
	if second == 1 {
		ev.Inputs = append(ev.Inputs, Input{Name: "b", Type: "address", Column: "c_b"})
		tbl.Columns = append(tbl.Columns, wpg.Column{Name: "c_b", Type: "bytea"})
	}
	bds := []BlockData{{Name: "abi_idx", Column: "abi_idx"}, {Name: "log_idx", Column: "log_idx"}}
	for _, bd := range bds {
		tbl.Columns = append(tbl.Columns, wpg.Column{Name: bd.Column, Type: "x"})
	}
	ig, err := New("ig1", ev, bds, tbl, Notification{}, "")
	zzvrf.Assert(err == nil, "new-ok")
	if err != nil {
		return
	}
	var tys []zzTy
	var vals []zzVal
	for _, in := range ev.Inputs {
		t := zzParse(in)
		tys = append(tys, t)
		vals = append(vals, zzGen(t, alen, 0))
	}
	data := zzEncSeq(tys, vals)
	lg := zzMakeLog(1, data)
	copy(lg.lwc.l.Topics[0], ig.sighash)
	var rows [][]any
	var perr error
	panicked := false
	func() {
		defer func() {
			if r := recover(); r != nil {
				panicked = true
			}
		}()
		rows, perr = ig.processLog(nil, lg.lwc, &sync.Mutex{}, nil)
	}()
	zzvrf.Assert(!panicked, "no-panic")
	if panicked {
		return
	}
	zzvrf.Assert(perr == nil, "valid-encoding-accepted")
	if perr != nil {
		return
	}
	if n > 0 {
		zzvrf.Assert(len(rows) == n, "one-row-per-element")
	}
	if len(rows) != n {
		zzvrf.Reach("end")
		return
	}
	for i := 0; i < n; i++ {
		row := rows[i]
		zzvrf.Assert(len(row) == len(ig.Columns), "row-width")
		if len(row) != len(ig.Columns) {
			return
		}
		zzCheckCell(leaf, row[0], vals[0].elems[i].word, "array-element-mapped-by-its-leaf-type")
		col := 1
		if second == 1 {
			zzCheckCell("address", row[1], vals[1].word, "scalar-next-to-array")
			col = 2
		}
		ai, ok := row[col].(int)
		zzvrf.Assert(ok && ai == i, "abi_idx-counts-elements-from-zero")
		li, ok := row[col+1].(eth.Uint64)
		zzvrf.Assert(ok && li == lg.lwc.l.Idx, "log_idx")
	}
	zzvrf.Reach("end")
}

// ZZ_C11_NegInt: the decimal rendering of a signed 256-bit value (negInt.Value,
// what COPY stores for intN columns): a minus sign iff the top bit is set,
// followed by the decimal of the two's-complement magnitude. The unsigned
// decimal conversion itself (uint256.Dec) is an uninterpreted function of the
// 256-bit value in the engine; the reference magnitude is computed here limb
// by limb, independently of uint256.Neg/Abs.
func ZZ_C11_NegInt() {
	var x uint256.Int
	x[0], x[1], x[2], x[3] = zzvrf.U64("limb0"), zzvrf.U64("limb1"), zzvrf.U64("limb2"), zzvrf.U64("limb3")
	orig := x
	ni := &negInt{&x}
	v, err := ni.Value()
	zzvrf.Assert(err == nil, "value-ok")
	got, ok := v.(string)
	zzvrf.Assert(ok, "value-is-a-decimal-string")
	if err != nil || !ok {
		return
	}
	neg := orig[3]>>63 == 1
	var mag uint256.Int
	if neg {
		// two's complement: invert and add one, with carries
		var carry uint64 = 1
		for i := 0; i < 4; i++ {
			w := ^orig[i]
			s := w + carry
			if s < w {
				carry = 1
			} else {
				carry = 0
			}
			mag[i] = s
		}
	} else {
		mag = orig
	}
	want := mag.Dec()
	if neg {
		want = "-" + want
	}
	zzvrf.Assert(got == want, "signed-integer-rendered-as-exact-decimal")
	zzvrf.Assert(x == orig, "value-does-not-modify-the-integer")
	zzvrf.Reach("end")
}

// ZZ_C18_DigInsert: two partitions of one step run Integration.Insert
// concurrently, each on its own Integration instance (as Task.insert does with
// its per-partition destinations) and its own blocks, sharing the connection
// mutex. The event carries integer filters, so every filter code path with
// scratch state runs in both goroutines. No two accesses may race.
//
//	kind 0: uint256 filter on an event input; 1: uint64 filter on a block field; 2: byte-string filter
func ZZ_C18_DigInsert(kind int) {
	mk := func() (Integration, error) {
		ev := Event{Name: "Ev", Inputs: []Input{{Name: "a", Type: "uint256", Indexed: true, Column: "c_a"}}}
		bds := []BlockData{{Name: "log_idx", Column: "log_idx"}, {Name: "log_addr", Column: "log_addr"}}
		switch kind {
		case 0:
			ev.Inputs[0].Filter = Filter{Op: "gt", Arg: []string{"1000"}}
		case 1:
			bds[0].Filter = Filter{Op: "gt", Arg: []string{"1"}}
		case 2:
			bds[1].Filter = Filter{Op: "contains", Arg: []string{"0x0102030405060708090a0b0c0d0e0f1011121314"}}
		}
		tbl := wpg.Table{Name: "t", Columns: []wpg.Column{{Name: "c_a", Type: "numeric"}, {Name: "log_idx", Type: "x"}, {Name: "log_addr", Type: "x"}}}
		return New("ig1", ev, bds, tbl, Notification{}, "")
	}
	igA, errA := mk()
	igB, errB := mk()
	zzvrf.Assert(errA == nil && errB == nil, "new-ok")
	if errA != nil || errB != nil {
		return
	}
	mkBlocks := func(ig Integration) []eth.Block {
		blocks := make([]eth.Block, 1)
		b := &blocks[0]
		b.Header.Number = eth.Uint64(zzvrf.U64("block_num"))
		b.Txs = make(eth.Txs, 1)
		t := &b.Txs[0]
		t.PrecompHash = zzvrf.Bytes("tx_hash", 32, 32)
		topic1 := zzvrf.Bytes("topic1", 32, 32)
		t.Logs = eth.Logs{{Idx: eth.Uint64(zzvrf.U64("log_idx")), Address: zzvrf.Bytes("log_addr", 20, 20), Topics: []eth.Bytes{append([]byte(nil), ig.sighash...), topic1}}}
		return blocks
	}
	blocksA, blocksB := mkBlocks(igA), mkBlocks(igB)
	ctx := wctx.WithSrcName(context.Background(), "src1")
	conn := &zzConn{}
	var mut sync.Mutex
	zzvrf.RaceRecord(true)
	var eg errgroup.Group
	eg.Go(func() error { _, err := igA.Insert(ctx, &mut, conn, blocksA); return err })
	eg.Go(func() error { _, err := igB.Insert(ctx, &mut, conn, blocksB); return err })
	err := eg.Wait()
	zzvrf.RaceRecord(false)
	zzvrf.Assert(err == nil, "inserts-succeed")
	zzvrf.RaceCheck("no-data-race")
	zzvrf.Reach("end")
}
