package dig

import (
	"context"
	"sync"

	"github.com/holiman/uint256"
	"github.com/indexsupply/shovel/eth"
	"github.com/indexsupply/shovel/zzvrf"
)

var zzOps = []string{"contains", "!contains", "eq", "ne", "gt", "lt"}

func zzAccept(f Filter, d any) (res bool, set bool, err error, panicked bool) {
	frs := filterResults{kind: "and"}
	func() {
		defer func() {
			if r := recover(); r != nil {
				panicked = true
			}
		}()
		err = f.Accept(context.Background(), &sync.Mutex{}, nil, d, &frs)
	}()
	return frs.val, frs.set, err, panicked
}

// ZZ_C12_Bytes: byte-string field of flen bytes against nargs arguments of
// alen bytes each (hex text built from symbolic bytes), operator op.
func ZZ_C12_Bytes(op, flen, nargs, alen int) {
	v := zzvrf.Bytes("field", flen, flen)
	f := Filter{Op: zzOps[op]}
	var args [][]byte
	for i := 0; i < nargs; i++ {
		a := zzvrf.Bytes("arg", alen, alen)
		args = append(args, a)
		f.Arg = append(f.Arg, eth.EncodeHex(a))
	}
	res, set, err, panicked := zzAccept(f, eth.Bytes(v))
	zzvrf.Assert(!panicked, "no-panic")
	if panicked {
		return
	}
	zzvrf.Assert(err == nil, "no-error")
	// reference predicate
	anyContains, anyEq := false, false
	for _, a := range args {
		if alen <= flen {
			for p := 0; p+alen <= flen; p++ {
				anyContains = zzvrf.Or(anyContains, zzvrf.BytesEq(v[p:p+alen], a))
			}
		}
		anyEq = zzvrf.Or(anyEq, zzvrf.BytesEq(v, a))
	}
	if nargs == 0 {
		zzvrf.Assert(!set, "no-args-no-filter")
		zzvrf.Reach("end")
		return
	}
	zzvrf.Assert(set, "filter-evaluated")
	switch zzOps[op] {
	case "contains":
		zzvrf.Assert(res == anyContains, "contains")
	case "!contains":
		zzvrf.Assert(res == !anyContains, "not-contains")
	case "eq":
		zzvrf.Assert(res == anyEq, "eq")
	case "ne":
		zzvrf.Assert(res == !anyEq, "ne")
	}
	zzvrf.Reach("end")
}

var zzU64Args = []string{"0", "1", "1000", "9223372036854775808", "18446744073709551615"}
var zzU64Vals = []uint64{0, 1, 1000, 1 << 63, 1<<64 - 1}

// ZZ_C12_Uint64: 64-bit field (symbolic) against a decimal argument.
func ZZ_C12_Uint64(op, argi, kind int) {
	v := zzvrf.U64("field")
	f := Filter{Op: zzOps[op], Arg: []string{zzU64Args[argi]}}
	var d any = v
	if kind == 1 {
		d = eth.Uint64(v)
	}
	res, set, err, panicked := zzAccept(f, d)
	zzvrf.Assert(!panicked && err == nil, "no-panic-no-error")
	if panicked {
		return
	}
	a := zzU64Vals[argi]
	switch zzOps[op] {
	case "eq":
		zzvrf.Assert(set && res == (v == a), "eq")
	case "ne":
		zzvrf.Assert(set && res == (v != a), "ne")
	case "gt":
		zzvrf.Assert(set && res == (v > a), "gt")
	case "lt":
		zzvrf.Assert(set && res == (v < a), "lt")
	}
	zzvrf.Reach("end")
}

var zzU256Args = []string{"0", "1", "18446744073709551616", "57896044618658097711785492504343953926634992332820282019728792003956564819968"}

func zzU256Arg(i int) uint256.Int {
	switch i {
	case 0:
		return uint256.Int{0, 0, 0, 0}
	case 1:
		return uint256.Int{1, 0, 0, 0}
	case 2:
		return uint256.Int{0, 1, 0, 0}
	}
	return uint256.Int{0, 0, 0, 1 << 63}
}

func zzLess(a, b uint256.Int) bool {
	lt := false
	// most significant limb last: compare from low to high, higher limbs override
	for i := 0; i < 4; i++ {
		lt = zzvrf.Or(a[i] < b[i], zzvrf.And(a[i] == b[i], lt))
	}
	return lt
}

// ZZ_C12_Uint256: 256-bit field (4 symbolic limbs) against a decimal argument.
func ZZ_C12_Uint256(op, argi int) {
	v := uint256.Int{zzvrf.U64("l0"), zzvrf.U64("l1"), zzvrf.U64("l2"), zzvrf.U64("l3")}
	f := Filter{Op: zzOps[op], Arg: []string{zzU256Args[argi]}}
	res, set, err, panicked := zzAccept(f, &v)
	zzvrf.Assert(!panicked && err == nil, "no-panic-no-error")
	if panicked {
		return
	}
	a := zzU256Arg(argi)
	eq := zzvrf.And(zzvrf.And(v[0] == a[0], v[1] == a[1]), zzvrf.And(v[2] == a[2], v[3] == a[3]))
	switch zzOps[op] {
	case "eq":
		zzvrf.Assert(set && res == eq, "eq")
	case "ne":
		zzvrf.Assert(set && res == !eq, "ne")
	case "gt":
		zzvrf.Assert(set && res == zzLess(a, v), "gt")
	case "lt":
		zzvrf.Assert(set && res == zzLess(v, a), "lt")
	}
	zzvrf.Reach("end")
}

var zzStrVocab = []string{"call", "delegatecall", "create", ""}

// ZZ_C12_String: string field (symbolic, slen bytes) against vocabulary args.
func ZZ_C12_String(op, slen, nargs int) {
	v := zzvrf.Str("field", slen)
	f := Filter{Op: zzOps[op]}
	for i := 0; i < nargs; i++ {
		f.Arg = append(f.Arg, zzStrVocab[i])
	}
	res, set, err, panicked := zzAccept(f, v)
	zzvrf.Assert(!panicked && err == nil, "no-panic-no-error")
	if panicked || nargs == 0 {
		zzvrf.Reach("end")
		return
	}
	member := false
	for i := 0; i < nargs; i++ {
		member = zzvrf.Or(member, v == zzStrVocab[i])
	}
	switch zzOps[op] {
	case "contains":
		zzvrf.Assert(set && res == member, "contains")
	case "!contains":
		zzvrf.Assert(set && res == !member, "not-contains")
	case "eq":
		zzvrf.Assert(set && res == (v == zzStrVocab[0]), "eq")
	case "ne":
		zzvrf.Assert(set && res == (v != zzStrVocab[0]), "ne")
	}
	zzvrf.Reach("end")
}

var zzAggs = []string{"", "and", "or", "AND"}

func zzBytesRef(op string, v []byte, args [][]byte) bool {
	anyContains, anyEq := false, false
	for _, a := range args {
		for p := 0; p+len(a) <= len(v); p++ {
			anyContains = zzvrf.Or(anyContains, zzvrf.BytesEq(v[p:p+len(a)], a))
		}
		anyEq = zzvrf.Or(anyEq, zzvrf.BytesEq(v, a))
	}
	switch op {
	case "contains":
		return anyContains
	case "!contains":
		return !anyContains
	case "eq":
		return anyEq
	case "ne":
		return !anyEq
	}
	return true
}

// ZZ_C12_Fold: a log passes through processLog of an integration with a
// filter on an indexed bytes32 input (op1) and one on log_addr (op2, nargs2
// arguments; 0 = no filter), aggregation agg. Decides the fold (E2) and that
// the address list pushed to eth_getLogs never excludes an accepted log (E3).
func ZZ_C12_Fold(op1, op2, agg, nargs2 int) {
	// filter arguments are configuration: concrete here (their symbolic
	// treatment is ZZ_C12_Bytes); the log's topic and address are symbolic.
	argA := make([]byte, 32)
	for i := range argA {
		argA[i] = byte(0xa0 + i)
	}
	ev := Event{Name: "Ev", Inputs: []Input{{Name: "a", Type: "bytes32", Indexed: true, Column: "c_a"}}}
	if op1 >= 0 {
		ev.Inputs[0].Filter = Filter{Op: zzOps[op1], Arg: []string{eth.EncodeHex(argA)}}
	}
	bd := BlockData{Name: "log_addr", Column: "log_addr"}
	var argsB [][]byte
	// nargs2 >= 10: the LAST argument is a 4-byte pattern, not a whole address
	short := nargs2 >= 10
	nargs2 %= 10
	for i := 0; i < nargs2; i++ {
		b := make([]byte, 20)
		if short && i == nargs2-1 {
			b = make([]byte, 4)
		}
		for j := range b {
			b[j] = byte(0x10*(i+1) + j)
		}
		argsB = append(argsB, b)
		bd.Filter.Arg = append(bd.Filter.Arg, eth.EncodeHex(b))
	}
	bd.Filter.Op = zzOps[op2]
	tbl := wpgTable("t", "c_a", "log_addr")
	ig, err := New("ig1", ev, []BlockData{bd}, tbl, Notification{}, zzAggs[agg])
	zzvrf.Assert(err == nil, "new-ok")
	lg := zzMakeLog(2, nil)
	copy(lg.lwc.l.Topics[0], ig.sighash)
	var rows [][]any
	var perr error
	panicked := false
	func() {
		defer func() {
			if r := recover(); r != nil {
				panicked = true
			}
		}()
		rows, perr = ig.processLog(nil, lg.lwc, &sync.Mutex{}, nil)
	}()
	zzvrf.Assert(!panicked && perr == nil, "no-panic-no-error")
	if panicked || perr != nil {
		return
	}
	r1, have1 := true, op1 >= 0
	if have1 {
		r1 = zzBytesRef(zzOps[op1], lg.topics[1], [][]byte{argA})
	}
	r2, have2 := true, nargs2 > 0
	if have2 {
		r2 = zzBytesRef(zzOps[op2], lg.lwc.l.Address, argsB)
	}
	var want bool
	switch {
	case !have1 && !have2:
		want = true
	case !have1:
		want = r2
	case !have2:
		want = r1
	case zzAggs[agg] == "and" || zzAggs[agg] == "AND":
		want = zzvrf.And(r1, r2)
	default:
		want = zzvrf.Or(r1, r2)
	}
	emitted := len(rows) == 1
	zzvrf.Assert(len(rows) <= 1, "at-most-one-row")
	zzvrf.Assert(emitted == want, "row-emitted-iff-filters-accept")

	// E3: pushdown
	flt := ig.Filter()
	addrs := flt.Addresses()
	inList := len(addrs) == 0
	for _, a := range addrs {
		inList = zzvrf.Or(inList, zzvrf.BytesEq(eth.DecodeHex(a), lg.lwc.l.Address))
	}
	zzvrf.Assert(zzvrf.Implies(want, inList), "pushdown-keeps-accepted-log")
	tps := flt.Topics()
	zzvrf.Assert(len(tps) == 1 && len(tps[0]) == 1 && zzvrf.BytesEq(eth.DecodeHex(tps[0][0]), ig.sighash), "topic-pushdown-is-signature-hash")
	zzvrf.Reach("end")
}

// ZZ_C12_Ref: the indexed input carries a reference filter (filter_ref); the
// referenced table's content is a symbolic membership answer. log_addr has a
// filter with operator op2 and nargs2 arguments.
func ZZ_C12_Ref(op2, agg, nargs2 int) {
	ev := Event{Name: "Ev", Inputs: []Input{{Name: "a", Type: "bytes32", Indexed: true, Column: "c_a"}}}
	ev.Inputs[0].Filter = Filter{Op: "contains", Ref: Ref{Integration: "x", Table: "xt", Column: "c"}}
	bd := BlockData{Name: "log_addr", Column: "log_addr"}
	var argsB [][]byte
	for i := 0; i < nargs2; i++ {
		b := make([]byte, 20)
		for j := range b {
			b[j] = byte(0x10*(i+1) + j)
		}
		argsB = append(argsB, b)
		bd.Filter.Arg = append(bd.Filter.Arg, eth.EncodeHex(b))
	}
	bd.Filter.Op = zzOps[op2]
	ig, err := New("ig1", ev, []BlockData{bd}, wpgTable("t", "c_a", "log_addr"), Notification{}, zzAggs[agg])
	zzvrf.Assert(err == nil, "new-ok")
	lg := zzMakeLog(2, nil)
	copy(lg.lwc.l.Topics[0], ig.sighash)
	conn := &zzConn{}
	var rows [][]any
	var perr error
	panicked := false
	func() {
		defer func() {
			if r := recover(); r != nil {
				panicked = true
			}
		}()
		rows, perr = ig.processLog(nil, lg.lwc, &sync.Mutex{}, conn)
	}()
	zzvrf.Assert(!panicked && perr == nil, "no-panic-no-error")
	if panicked || perr != nil {
		return
	}
	zzvrf.Assert(conn.lookups == 1, "reference-looked-up-once")
	emitted := len(rows) == 1
	// the membership answer is the only symbolic Boolean: recover it from the outcome
	// by running the reference fold for both answers
	r2, have2 := true, nargs2 > 0
	if have2 {
		r2 = zzBytesRef(zzOps[op2], lg.lwc.l.Address, argsB)
	}
	and := zzAggs[agg] == "and" || zzAggs[agg] == "AND"
	wantIfMember, wantIfNot := true, false
	if have2 {
		if and {
			wantIfMember, wantIfNot = r2, false
		} else {
			wantIfMember, wantIfNot = true, r2
		}
	}
	zzvrf.Assert(zzvrf.Or(emitted == wantIfMember, emitted == wantIfNot), "row-emitted-iff-filters-accept")
	// pushdown must keep every log some table content would accept
	flt := ig.Filter()
	addrs := flt.Addresses()
	inList := len(addrs) == 0
	for _, a := range addrs {
		inList = zzvrf.Or(inList, zzvrf.BytesEq(eth.DecodeHex(a), lg.lwc.l.Address))
	}
	zzvrf.Assert(zzvrf.Implies(emitted, inList), "pushdown-keeps-accepted-log")
	zzvrf.Reach("end")
}

// ZZ_C12_Rows: one log yields several rows (a selected bytes32[] input with
// alen symbolic elements, reference ABI encoding); the array input carries a
// filter (op1), log_addr optionally another (op2 with one argument when
// withAddr == 1), aggregation agg. Each element's row is emitted iff the fold
// of THAT row's filter results accepts: verdicts must not leak between rows.
func ZZ_C12_Rows(op1, op2, agg, alen, withAddr int) {
	argA := make([]byte, 32)
	for i := range argA {
		argA[i] = byte(0xa0 + i)
	}
	in := Input{Name: "a", Type: "bytes32[]", Column: "c_a"}
	in.Filter = Filter{Op: zzOps[op1], Arg: []string{eth.EncodeHex(argA)}}
	ev := Event{Name: "Ev", Inputs: []Input{in}}
	bds := []BlockData{{Name: "abi_idx", Column: "abi_idx"}}
	argB := make([]byte, 20)
	for j := range argB {
		argB[j] = byte(0x10 + j)
	}
	if withAddr == 1 {
		bd := BlockData{Name: "log_addr", Column: "log_addr"}
		bd.Filter = Filter{Op: zzOps[op2], Arg: []string{eth.EncodeHex(argB)}}
		bds = append(bds, bd)
	}
	tbl := wpgTable("t", "c_a", "abi_idx", "log_addr")
	ig, err := New("ig1", ev, bds, tbl, Notification{}, zzAggs[agg])
	zzvrf.Assert(err == nil, "new-ok")
	if err != nil {
		return
	}
	t := zzParse(in)
	val := zzGen(t, alen, 0)
	data := zzEncSeq([]zzTy{t}, []zzVal{val})
	lg := zzMakeLog(1, data)
	copy(lg.lwc.l.Topics[0], ig.sighash)
	var rows [][]any
	var perr error
	panicked := false
	func() {
		defer func() {
			if r := recover(); r != nil {
				panicked = true
			}
		}()
		rows, perr = ig.processLog(nil, lg.lwc, &sync.Mutex{}, nil)
	}()
	zzvrf.Assert(!panicked && perr == nil, "no-panic-no-error")
	if panicked || perr != nil {
		return
	}
	r2 := true
	if withAddr == 1 {
		r2 = zzBytesRef(zzOps[op2], lg.lwc.l.Address, [][]byte{argB})
	}
	isAnd := zzAggs[agg] == "and" || zzAggs[agg] == "AND"
	seen := make([]int, alen)
	for _, row := range rows {
		ai, ok := row[1].(int)
		zzvrf.Assert(ok && ai >= 0 && ai < alen, "abi_idx-in-range")
		if !ok || ai < 0 || ai >= alen {
			return
		}
		seen[ai]++
		got, ok := row[0].([]byte)
		zzvrf.Assert(ok && zzvrf.BytesEq(got, val.elems[ai].word), "row-carries-its-element")
	}
	for i := 0; i < alen; i++ {
		r1 := zzBytesRef(zzOps[op1], val.elems[i].word, [][]byte{argA})
		want := r1
		if withAddr == 1 {
			if isAnd {
				want = zzvrf.And(r1, r2)
			} else {
				want = zzvrf.Or(r1, r2)
			}
		}
		zzvrf.Assert(seen[i] <= 1, "element-emitted-at-most-once")
		zzvrf.Assert((seen[i] == 1) == want, "row-emitted-iff-its-own-filters-accept")
	}
	zzvrf.Reach("end")
}

// ZZ_C12_TxFold: the fold of a transaction-level (level 0) or trace-level
// (level 1) integration: no event, two block fields carry byte-string filters
// (op1 on the "to" field, op2 on the "from" field, one argument each),
// aggregation agg. The row is emitted iff the declared fold accepts.
func ZZ_C12_TxFold(op1, op2, agg, level int) {
	argA, argB := make([]byte, 20), make([]byte, 20)
	for j := range argA {
		argA[j] = byte(0x10 + j)
		argB[j] = byte(0x50 + j)
	}
	toName, fromName := "tx_to", "tx_signer"
	if level == 1 {
		toName, fromName = "trace_action_to", "trace_action_from"
	}
	bds := []BlockData{
		{Name: toName, Column: "c_to", Filter: Filter{Op: zzOps[op1], Arg: []string{eth.EncodeHex(argA)}}},
		{Name: fromName, Column: "c_from", Filter: Filter{Op: zzOps[op2], Arg: []string{eth.EncodeHex(argB)}}},
	}
	tbl := wpgTable("t", "c_to", "c_from")
	ig, err := New("ig1", Event{}, bds, tbl, Notification{}, zzAggs[agg])
	zzvrf.Assert(err == nil, "new-ok")
	if err != nil {
		return
	}
	lg := zzMakeLog(0, nil)
	to, from := zzvrf.Bytes("to", 20, 20), zzvrf.Bytes("from", 20, 20)
	if level == 1 {
		lg.lwc.t.TraceActions = []eth.TraceAction{{To: to, From: from}}
		lg.lwc.ta = &lg.lwc.t.TraceActions[0]
	} else {
		lg.lwc.t.To = to
		lg.lwc.t.From = from
	}
	var rows [][]any
	var perr error
	panicked := false
	func() {
		defer func() {
			if r := recover(); r != nil {
				panicked = true
			}
		}()
		rows, _, perr = ig.processTx(nil, lg.lwc, &sync.Mutex{}, nil)
	}()
	zzvrf.Assert(!panicked && perr == nil, "no-panic-no-error")
	if panicked || perr != nil {
		return
	}
	r1 := zzBytesRef(zzOps[op1], to, [][]byte{argA})
	r2 := zzBytesRef(zzOps[op2], from, [][]byte{argB})
	want := zzvrf.Or(r1, r2)
	if zzAggs[agg] == "and" || zzAggs[agg] == "AND" {
		want = zzvrf.And(r1, r2)
	}
	zzvrf.Assert(len(rows) <= 1, "at-most-one-row")
	zzvrf.Assert((len(rows) == 1) == want, "row-emitted-iff-filters-accept")
	zzvrf.Reach("end")
}
