package dig

import (
	"github.com/indexsupply/shovel/eth"
	"strings"

	"github.com/indexsupply/shovel/zzvrf"
)

// reference rendering of the canonical signature (Solidity ABI rules)
func zzSig(in Input) string {
	if !strings.HasPrefix(in.Type, "tuple") {
		return in.Type
	}
	s := "("
	for i, c := range in.Components {
		if i > 0 {
			s += ","
		}
		s += zzSig(c)
	}
	s += ")"
	return s + in.Type[len("tuple"):]
}

func zzSigCatalogue(shape int) []Input {
	switch shape {
	case 0:
		return nil
	case 1:
		return []Input{zzIn("address", false), zzIn("address", false), zzIn("uint256", false)}
	case 2:
		return []Input{zzIn("tuple", false, zzIn("uint256", false), zzIn("bytes", false))}
	case 3:
		return []Input{zzIn("tuple[]", false, zzIn("uint256", false), zzIn("bytes", false)), zzIn("bool", false)}
	case 4:
		return []Input{zzIn("tuple[2][]", false, zzIn("tuple", false, zzIn("int8", false), zzIn("string[]", false)), zzIn("bytes32", false))}
	case 5:
		return []Input{zzIn("uint256[3][]", false), zzIn("tuple", false, zzIn("tuple[]", false, zzIn("address", false)))}
	case 6:
		return []Input{zzIn("tuple", false)}
	case 7, 8:
		// signatures longer than 128 / 256 bytes that differ only in their last input
		var ins []Input
		for i := 0; i < 40; i++ {
			ins = append(ins, zzIn("uint256", false))
		}
		if shape == 8 {
			ins[39] = zzIn("uint128", false)
		}
		return ins
	}
	return nil
}

// ZZ_C13_Signature: Event.Signature() equals the reference rendering for a
// symbolic event name of nlen bytes; with nlen = -1 the known-answer vector
// Transfer(address,address,uint256) is hashed concretely (smoke test of the
// Keccak plumbing, labelled as such).
func ZZ_C13_Signature(shape, nlen int) {
	ins := zzSigCatalogue(shape)
	if nlen < 0 {
		ev := Event{Name: "Transfer", Inputs: zzSigCatalogue(1)}
		h := ev.SignatureHash()
		want := []byte{0xdd, 0xf2, 0x52, 0xad, 0x1b, 0xe2, 0xc8, 0x9b, 0x69, 0xc2, 0xb0, 0x68, 0xfc, 0x37, 0x8d, 0xaa, 0x95, 0x2b, 0xa7, 0xf1, 0x63, 0xc4, 0xa1, 0x16, 0x28, 0xf5, 0x5a, 0x4d, 0xf5, 0x23, 0xb3, 0xef}
		zzvrf.Assert(zzvrf.BytesEq(h, want), "keccak-known-answer")
		zzvrf.Reach("end")
		return
	}
	name := zzvrf.Str("name", nlen)
	ev := Event{Name: name, Inputs: ins}
	got := ev.Signature()
	want := name + "("
	for i, in := range ins {
		if i > 0 {
			want += ","
		}
		want += zzSig(in)
	}
	want += ")"
	zzvrf.Assert(got == want, "signature-canonical")
	zzvrf.Reach("end")
}

// ZZ_C13_TwoEvents: two integrations of one process declare events of the
// SAME name with different inputs (e.g. two versions of a Swap event): each
// one's signature hash is the hash of ITS OWN canonical signature, so each
// decodes only its own logs.
func ZZ_C13_TwoEvents(shapeA, shapeB int) {
	evA := Event{Name: "Swap", Inputs: zzSigCatalogue(shapeA)}
	evB := Event{Name: "Swap", Inputs: zzSigCatalogue(shapeB)}
	hA1 := evA.SignatureHash()
	hB := evB.SignatureHash()
	hA2 := evA.SignatureHash()
	zzvrf.Assert(zzvrf.BytesEq(hA1, eth.Keccak([]byte(evA.Signature()))), "sighash-is-the-hash-of-this-event's-signature")
	zzvrf.Assert(zzvrf.BytesEq(hB, eth.Keccak([]byte(evB.Signature()))), "sighash-is-the-hash-of-this-event's-signature")
	zzvrf.Assert(zzvrf.BytesEq(hA2, hA1), "sighash-stable")
	if evA.Signature() != evB.Signature() {
		zzvrf.Assert(!zzvrf.BytesEq(hA1, hB), "different-signatures-different-hashes")
	}
	zzvrf.Reach("end")
}
