package dig

import (
	"context"

	"github.com/indexsupply/shovel/zzvrf"
	"github.com/jackc/pgx/v5"
	"github.com/jackc/pgx/v5/pgconn"
)

// zzConn is a wpg.Conn for dig harnesses: COPY rows are drained when COPY
// runs (as pgx does), reference lookups answer with a symbolic membership.
type zzConn struct {
	cols    []string
	rows    [][]any
	sql     []string
	lookups int
}

func (c *zzConn) CopyFrom(ctx context.Context, t pgx.Identifier, cols []string, src pgx.CopyFromSource) (int64, error) {
	c.cols = cols
	for src.Next() {
		v, err := src.Values()
		if err != nil {
			return 0, err
		}
		c.rows = append(c.rows, v)
	}
	return int64(len(c.rows)), nil
}

func (c *zzConn) Exec(ctx context.Context, sql string, args ...any) (pgconn.CommandTag, error) {
	c.sql = append(c.sql, sql)
	return pgconn.CommandTag{}, nil
}

type zzRefRow struct{ member bool }

func (r zzRefRow) Scan(dest ...any) error {
	if !r.member {
		return pgx.ErrNoRows
	}
	*(dest[0].(*bool)) = true
	return nil
}

func (c *zzConn) QueryRow(ctx context.Context, sql string, args ...any) pgx.Row {
	c.sql = append(c.sql, sql)
	c.lookups++
	return zzRefRow{member: zzvrf.Bool("ref.member")}
}

func (c *zzConn) Query(ctx context.Context, sql string, args ...any) (pgx.Rows, error) {
	panic("unmodelled")
}
