package bint

import "github.com/indexsupply/shovel/zzvrf"

// ZZ_C17_RoundTrip: Decode(Encode(pad w, n)) == n; Encode panics iff size(n) > w.
func ZZ_C17_RoundTrip(w int) {
	n := zzvrf.U64("n")
	buf := make([]byte, w)
	panicked := false
	func() {
		defer func() {
			if r := recover(); r != nil {
				panicked = true
			}
		}()
		buf = Encode(buf, n)
	}()
	// reference size: number of significant bytes, at least 1
	need := 1
	for i := 1; i < 8; i++ {
		if n>>(8*uint(i)) != 0 {
			need = i + 1
		}
	}
	zzvrf.Assert(panicked == (need > w), "encode-panics-iff-too-small")
	if !panicked {
		zzvrf.Assert(len(buf) == w, "encode-keeps-width")
		zzvrf.Assert(Decode(buf) == n, "roundtrip")
	}
	zzvrf.Reach("end")
}

// ZZ_C17_EncodeNil: Encode(nil, n) has minimal size and round-trips.
func ZZ_C17_EncodeNil() {
	n := zzvrf.U64("n")
	b := Encode(nil, n)
	zzvrf.Assert(Decode(b) == n, "roundtrip-nil")
	zzvrf.Assert(len(b) >= 1 && len(b) <= 8, "size-range")
	zzvrf.Assert(n == 0 || b[0] != 0, "minimal")
	zzvrf.Reach("end")
}
