package jrpc2

import (
	"context"
	"errors"

	"github.com/indexsupply/shovel/eth"
	"github.com/indexsupply/shovel/shovel/glf"
	"github.com/indexsupply/shovel/zzvrf"
	"golang.org/x/sync/errgroup"
)

func zzC18Plan(p int) *glf.Filter {
	switch p {
	case 0:
		return &glf.Filter{UseHeaders: true, UseLogs: true}
	case 1:
		return &glf.Filter{UseBlocks: true, UseLogs: true}
	case 2:
		return &glf.Filter{UseBlocks: true, UseReceipts: true}
	case 3:
		return &glf.Filter{UseBlocks: true, UseTraces: true}
	}
	return &glf.Filter{UseBlocks: true}
}

// zzConsume does what a task does with fetched blocks: it copies them into
// its own slice (Task.load: append(blocks, b...)) and reads the fields the
// row builder reads (dig.Insert).
func zzConsume(bs []eth.Block) int {
	var mine []eth.Block
	mine = append(mine, bs...)
	n := 0
	for i := range mine {
		n += int(mine[i].Num()) & 1
		for j := range mine[i].Txs {
			tx := &mine[i].Txs[j]
			n += len(tx.Logs) + len(tx.TraceActions) + len(tx.To) + len(tx.Hash())
			for k := range tx.Logs {
				n += len(tx.Logs[k].Topics) + len(tx.Logs[k].Data)
			}
		}
		n += len(mine[i].Hash())
	}
	return n
}

// ZZ_C18_Shared: two tasks with data plans pa and pb fetch the same range
// through one caching client concurrently and consume the blocks.
func ZZ_C18_Shared(pa, pb int) { zzC18Shared(pa, pb, false) }

// ZZ_C18_SharedFail: the same with node failures (a solver Boolean per node
// call): the error paths of the cache run concurrently with the other task.
func ZZ_C18_SharedFail(pa, pb int) { zzC18Shared(pa, pb, true) }

func zzC18Shared(pa, pb int, fail bool) {
	ZZHonest(100, 1)
	zzNode.TwoLogs = true
	zzAllowFail = fail
	zzStart, zzLimit, zzCurFilter = 100, 1, 2
	c := New("http://node").WithMaxReads(4)
	fa, fb := zzC18Plan(pa), zzC18Plan(pb)
	zzvrf.RaceRecord(true)
	var eg errgroup.Group
	eg.Go(func() error {
		bs, err := c.Get(context.Background(), "http://node", fa, 100, 1)
		if err == nil {
			zzConsume(bs)
		}
		return err
	})
	eg.Go(func() error {
		bs, err := c.Get(context.Background(), "http://node", fb, 100, 1)
		if err == nil {
			zzConsume(bs)
		}
		return err
	})
	err := eg.Wait()
	zzvrf.RaceRecord(false)
	if !fail {
		zzvrf.Assert(err == nil, "both-fetches-succeed")
	}
	zzvrf.RaceCheck("no-data-race")
	zzvrf.Reach("end")
}

// ZZ_C18_Head: two tasks ask for the head concurrently; the poller has
// reported an error (mode 1) or announced a head (mode 0) before.
func ZZ_C18_Head(mode int) {
	ZZHonest(100, 1)
	c := New("http://node").WithMaxReads(4)
	zzHeadNum, zzHeadHash = 7, make([]byte, 32)
	if mode == 1 {
		c.lcache.error(errors.New("poller"))
	} else {
		c.lcache.update(5, make([]byte, 32))
	}
	zzvrf.RaceRecord(true)
	var eg errgroup.Group
	for i := 0; i < 2; i++ {
		eg.Go(func() error {
			_, _, err := c.Latest(context.Background(), "http://node", 3)
			return err
		})
	}
	// the poller goroutine announces concurrently; like httpPoll/wsListen it
	// decodes every answer into the same buffer (eth.Bytes.UnmarshalJSON
	// reuses the backing array), so the bytes it passed to update() are
	// rewritten by its next decode
	eg.Go(func() error {
		buf := make([]byte, 32)
		c.lcache.update(9, buf)
		buf[0] = 1 // the next answer is being decoded into the same buffer
		return nil
	})
	err := eg.Wait()
	zzvrf.RaceRecord(false)
	zzvrf.Assert(err == nil, "latest-succeeds")
	zzvrf.RaceCheck("no-data-race")
	zzvrf.Reach("end")
}

// ZZ_C18_TxHash: two tasks consume one shared cached block whose
// transaction arrived without a hash (hashless = 1: the memo is filled on
// first use, under the transaction's own lock) or with one (hashless = 0).
func ZZ_C18_TxHash(hashless int) {
	bs := []eth.Block{{Txs: make([]eth.Tx, 2)}}
	if hashless == 0 {
		bs[0].Txs[0].PrecompHash = make([]byte, 32)
	}
	bs[0].Txs[1].PrecompHash = make([]byte, 32)
	zzvrf.RaceRecord(true)
	var eg errgroup.Group
	for i := 0; i < 2; i++ {
		eg.Go(func() error {
			zzConsume(bs)
			return nil
		})
	}
	eg.Wait()
	zzvrf.RaceRecord(false)
	zzvrf.RaceCheck("no-data-race")
	zzvrf.Reach("end")
}
