package jrpc2

// The honest node used by C14/C08: one block with one transaction, one log,
// one trace. Every field a JSON-RPC method returns (per the Ethereum JSON-RPC
// specification; this table is the independent oracle of C14) is a non-zero
// symbolic value; fields a method does not return are left untouched.

import (
	"github.com/holiman/uint256"
	"github.com/indexsupply/shovel/eth"
	"github.com/indexsupply/shovel/zzvrf"
)

type ZZNode struct {
	BlockHash, ParentHash                                  []byte
	BlockTime                                              uint64
	TxHash, TxFrom, TxTo, TxInput                          []byte
	TxNonce, TxGas, TxValue, TxGasPrice, TxMaxPrio, TxMaxFee uint64
	TxType, TxStatus                                       byte
	TxGasUsed, TxEffGasPrice                               uint64
	TxContractAddr                                         []byte
	LogIdx                                                 uint64
	LogAddr, LogTopic0, LogData                            []byte
	LogAddrB                                               []byte
	TwoLogs                                                bool
	TraceFrom, TraceTo                                     []byte
	TraceValue                                             uint64
}

var zzNode *ZZNode

func zzNZ(tag string, n int) []byte {
	b := zzvrf.Bytes(tag, n, n)
	zzvrf.Assume(b[0] != 0)
	return b
}

func zzNZ64(tag string) uint64 {
	v := zzvrf.U64(tag)
	zzvrf.Assume(v != 0)
	return v
}

// ZZHonest switches the stub to the honest node for blocks [start, start+limit).
func ZZHonest(start, limit uint64) *ZZNode {
	zzMode, zzStart, zzLimit, zzCalls, zzTraceCall, zzFailCall = 1, start, limit, 0, 0, -1
	n := &ZZNode{
		BlockHash: zzNZ("node.block_hash", 32), ParentHash: zzNZ("node.parent_hash", 32), BlockTime: zzNZ64("node.block_time"),
		TxHash: zzNZ("node.tx_hash", 32), TxFrom: zzNZ("node.tx_from", 20), TxTo: zzNZ("node.tx_to", 20), TxInput: zzNZ("node.tx_input", 4),
		TxNonce: zzNZ64("node.tx_nonce"), TxGas: zzNZ64("node.tx_gas"), TxValue: zzNZ64("node.tx_value"), TxGasPrice: zzNZ64("node.tx_gas_price"),
		TxMaxPrio: zzNZ64("node.tx_max_prio"), TxMaxFee: zzNZ64("node.tx_max_fee"),
		TxGasUsed: zzNZ64("node.tx_gas_used"), TxEffGasPrice: zzNZ64("node.tx_eff_gas_price"), TxContractAddr: zzNZ("node.tx_contract", 20),
		LogIdx: zzNZ64("node.log_idx"), LogAddr: zzNZ("node.log_addr", 20), LogTopic0: zzNZ("node.topic0", 32), LogData: zzNZ("node.log_data", 4),
		TraceFrom: zzNZ("node.trace_from", 20), TraceTo: zzNZ("node.trace_to", 20), TraceValue: zzNZ64("node.trace_value"),
	}
	n.TxType = zzvrf.U8("node.tx_type")
	zzvrf.Assume(n.TxType != 0)
	n.TxStatus = zzvrf.U8("node.tx_status")
	zzvrf.Assume(n.TxStatus != 0)
	n.LogAddrB = zzNZ("node.log_addr_b", 20)
	zzNode = n
	zzAllowFail, zzFailures, zzBlockFetches, zzCurFilter, zzHeadHash = false, 0, 0, 2, nil
	return n
}

func ZZSetTopic0(t []byte) { zzNode.LogTopic0 = t }
func ZZFailCall(n int)    { zzFailCall = n }
func ZZCalls() int        { return zzCalls }

func zzNodeHeader(h *eth.Header, num uint64) {
	h.Number = eth.Uint64(num)
	h.Hash = zzCp(zzNode.BlockHash)
	h.Parent = zzCp(zzNode.ParentHash)
	h.Time = eth.Uint64(zzNode.BlockTime)
}

func zzNodeTx(t *eth.Tx) {
	n := zzNode
	t.Idx = 0
	t.PrecompHash = zzCp(n.TxHash)
	t.Nonce = eth.Uint64(n.TxNonce)
	t.From, t.To, t.Data = zzCp(n.TxFrom), zzCp(n.TxTo), zzCp(n.TxInput)
	t.Type = eth.Byte(n.TxType)
	t.GasLimit = eth.Uint64(n.TxGas)
	t.Value = uint256.Int{n.TxValue, 0, 0, 0}
	t.GasPrice = uint256.Int{n.TxGasPrice, 0, 0, 0}
	t.MaxPriorityFeePerGas = uint256.Int{n.TxMaxPrio, 0, 0, 0}
	t.MaxFeePerGas = uint256.Int{n.TxMaxFee, 0, 0, 0}
}

// zzCp: every answer carries its own bytes, as a JSON decoder would allocate them.
func zzCp(b []byte) []byte { return append([]byte(nil), b...) }

// ZZSetHead fixes the honest node's head.
func ZZSetHead(n uint64) { zzHeadNum, zzHeadHash = n, zzCp(zzNode.BlockHash) }
