package jrpc2

import (
	"context"

	"github.com/indexsupply/shovel/eth"
	"github.com/indexsupply/shovel/shovel/glf"
	"github.com/indexsupply/shovel/zzvrf"
)

func zzPlan(plan int) *glf.Filter {
	f := &glf.Filter{}
	switch plan % 3 {
	case 1:
		f.UseHeaders = true
	case 2:
		f.UseBlocks = true
	}
	switch plan / 3 {
	case 1:
		f.UseLogs = true
	case 2:
		f.UseReceipts = true
	case 3:
		f.UseTraces = true
	}
	return f
}

func zzGet(c *Client, f *glf.Filter, start, limit uint64) (blocks []eth.Block, err error, panicked bool) {
	defer func() {
		if r := recover(); r != nil {
			panicked = true
		}
	}()
	blocks, err = c.Get(context.Background(), "http://node", f, start, limit)
	return
}

// ZZ_C07_Get: one Get against an adversarial node. plan = base + 3*extra with
// base in {none, headers, blocks} and extra in {none, logs, receipts, traces}.
func ZZ_C07_Get(plan, limit, noErrors, budget int) {
	zzMode, zzCalls, zzGhost, zzTraceCall = 0, 0, nil, 0
	zzErrSeen = false
	zzBudget = budget
	zzNoErrors = noErrors == 1
	zzMaxItems = 2
	c := New("http://node")
	c.nocache = true
	start := zzvrf.U64("start")
	zzvrf.Assume(start < 1<<62)
	zzStart, zzLimit = start, uint64(limit)
	f := zzPlan(plan)
	blocks, err, panicked := zzGet(c, f, start, uint64(limit))
	zzvrf.Assert(!panicked, "no-panic")
	if panicked || err != nil {
		zzvrf.Reach("end")
		return
	}
	// V4: an answer carrying an error member (code != 0) is never accepted
	zzvrf.Assert(!zzErrSeen, "V4-error-member-is-an-error")
	zzvrf.Reach("accepted")
	// V1: exactly the requested consecutive numbers
	zzvrf.Assert(len(blocks) == limit, "V1-block-count")
	for i := range blocks {
		zzvrf.Assert(blocks[i].Num() == start+uint64(i), "V1-consecutive-numbers")
	}
	// V2: hash linkage where hashes are supplied by the block/header answers
	if f.UseHeaders || f.UseBlocks {
		for i := 1; i < len(blocks); i++ {
			if plan/3 == 0 {
				zzvrf.Assert(zzvrf.BytesEq(blocks[i].Header.Parent, blocks[i-1].Header.Hash), "V2-parent-links")
			}
		}
	}
	// V5: a log is attached only to the block whose hash it names: every
	// log of an accepted answer names the hash of the block it went to
	for _, it := range zzGhost {
		if it.kind != 'l' || len(it.bhash) != 32 {
			continue
		}
		for bi := range blocks {
			b := &blocks[bi]
			if len(b.Header.Hash) == 32 {
				zzvrf.Assert(zzvrf.Implies(b.Num() == it.blockNum, zzvrf.BytesEq(b.Header.Hash, it.bhash)), "V5-log-names-the-hash-of-its-block")
			}
		}
	}
	// V3: every item the node reported is attached to the block and
	// transaction it names, unchanged; nothing else is attached.
	for gi, it := range zzGhost {
		found := false
		for bi := range blocks {
			b := &blocks[bi]
			inB := b.Num() == it.blockNum
			for ti := range b.Txs {
				tx := &b.Txs[ti]
				inT := zzvrf.And(inB, uint64(tx.Idx) == it.txIdx)
				switch it.kind {
				case 'l':
					for li := range tx.Logs {
						same := zzvrf.And(uint64(tx.Logs[li].Idx) == it.logIdx, zzvrf.And(zzvrf.BytesEq(tx.Logs[li].Address, it.addr), zzvrf.BytesEq(tx.Logs[li].Data, it.data)))
						found = zzvrf.Or(found, zzvrf.And(inT, same))
					}
				case 'r':
					found = zzvrf.Or(found, zzvrf.And(inT, uint64(tx.GasUsed) == it.gasUsed))
				case 't':
					for ai := range tx.TraceActions {
						found = zzvrf.Or(found, zzvrf.And(inT, zzvrf.BytesEq(tx.TraceActions[ai].From, it.addr)))
					}
				}
			}
		}
		// an element that repeats the identity of another element of the same
		// answer (duplicate log index / duplicate transaction) is excused:
		// de-duplicating it is correct.
		dup := false
		for gj, o := range zzGhost {
			if gj == gi || o.kind != it.kind {
				continue
			}
			same := zzvrf.And(o.blockNum == it.blockNum, o.txIdx == it.txIdx)
			if it.kind == 'l' {
				same = zzvrf.And(o.blockNum == it.blockNum, o.logIdx == it.logIdx)
			}
			dup = zzvrf.Or(dup, same)
		}
		switch it.kind {
		case 'l':
			zzvrf.Assert(zzvrf.Or(dup, found), "V3-log-attached-where-it-says")
		case 'r':
			zzvrf.Assert(zzvrf.Or(dup, found), "V3-receipt-attached-where-it-says")
		case 't':
			zzvrf.Assert(zzvrf.Or(dup, found), "V3-trace-attached-where-it-says")
		}
	}
	zzvrf.Reach("end")
}

// ZZ_C07_HeadHash: Latest and Hash against an adversarial node.
func ZZ_C07_HeadHash(which int) {
	zzMode, zzCalls = 0, 0
	zzErrSeen = false
	zzBudget = 1
	zzNoErrors = false
	c := New("http://node")
	c.nocache = true
	panicked := false
	var err error
	func() {
		defer func() {
			if r := recover(); r != nil {
				panicked = true
			}
		}()
		if which == 0 {
			_, _, err = c.Latest(context.Background(), "http://node", 0)
		} else {
			_, err = c.Hash(context.Background(), "http://node", zzvrf.U64("n"))
		}
	}()
	zzvrf.Assert(!panicked, "no-panic")
	if !panicked && err == nil {
		// an error member next to a result is still an error
		zzvrf.Assert(!zzErrSeen, "V4-error-member-is-an-error")
		zzvrf.Reach("accepted")
	}
	zzvrf.Reach("end")
}
