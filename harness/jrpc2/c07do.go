package jrpc2

import (
	"context"
	"errors"
	"io"
	"net/http"

	"github.com/goccy/go-json"
	"github.com/indexsupply/shovel/wctx"
	"github.com/indexsupply/shovel/zzvrf"
)

// The transport of the real (*Client).do. Natively it is installed as the
// client's RoundTripper (no network); in the engine (*http.Client).Do is
// redirected to zzClientDo, which answers the same way.
var (
	zzHTTPFail   bool
	zzHTTPStatus int
	zzHTTPBody   []byte
	zzBodyBad    bool
)

type zzBodyRC struct {
	data []byte
	off  int
}

func (b *zzBodyRC) Read(p []byte) (int, error) {
	if b.off >= len(b.data) {
		return 0, io.EOF
	}
	n := copy(p, b.data[b.off:])
	b.off += n
	return n, nil
}
func (b *zzBodyRC) Close() error { return nil }

func zzResponse() (*http.Response, error) {
	if zzHTTPFail {
		return nil, errors.New("transport")
	}
	return &http.Response{StatusCode: zzHTTPStatus, Body: &zzBodyRC{data: zzHTTPBody}}, nil
}

type zzRT struct{}

func (zzRT) RoundTrip(req *http.Request) (*http.Response, error) {
	if req.Body != nil {
		io.Copy(io.Discard, req.Body) // let the encoder goroutine of do() finish
		req.Body.Close()
	}
	return zzResponse()
}

// ---- engine-side cuts of the library calls inside do() (redirectTableDo) ----

func zzPipe() (*io.PipeReader, *io.PipeWriter)      { return nil, nil }
func zzPipeWClose(w *io.PipeWriter) error           { return nil }
func zzNewEncoder(w io.Writer) *json.Encoder        { return nil }
func zzEncode(e *json.Encoder, v interface{}) error { return nil }
func zzNewRequest(method, url string, body io.Reader) (*http.Request, error) {
	return &http.Request{Method: method, Header: http.Header{}}, nil
}
func zzHeaderAdd(h http.Header, k, v string)                               {}
func zzClientDo(c *http.Client, req *http.Request) (*http.Response, error) { return zzResponse() }
func zzReadAll(r io.Reader) ([]byte, error)                                { return []byte("node says no"), nil }
func zzNewDecoder(r io.Reader) *json.Decoder                               { return nil }
func zzDecode(d *json.Decoder, v interface{}) error {
	if zzBodyBad {
		return errors.New("unexpected end of JSON input")
	}
	return nil
}

// ZZ_C07_Do: the real (*Client).do over a transport that fails, answers with
// any HTTP status, or answers with a body that does or does not decode.
// do() must return an error unless the transport succeeded, the status is
// 2xx and the body decoded; only then is the request counted.
func ZZ_C07_Do() {
	zzHTTPFail = zzvrf.Bool("http.transport-fails")
	zzHTTPStatus = zzvrf.Int("http.status")
	zzvrf.Assume(zzHTTPStatus >= 100 && zzHTTPStatus <= 599)
	zzBodyBad = zzvrf.Bool("http.body-undecodable")
	if zzBodyBad {
		zzHTTPBody = []byte(`{"x":`)
	} else {
		zzHTTPBody = []byte(`{"x":1}`)
	}
	c := New("http://node")
	c.hc = &http.Client{Transport: zzRT{}}
	var n uint64
	ctx := wctx.WithCounter(context.Background(), &n)
	var dest struct {
		X int `json:"x"`
	}
	err := zzRealDo(c, ctx, "http://node", &dest, request{ID: "1", Version: "2.0", Method: "eth_blockNumber"})
	ok := zzvrf.And(zzvrf.And(!zzHTTPFail, zzHTTPStatus/100 == 2), !zzBodyBad)
	zzvrf.Assert((err == nil) == ok, "error-unless-transport-ok-status-2xx-and-body-decodes")
	zzvrf.Assert((n == 1) == (err == nil) && n <= 1, "request-counted-iff-it-succeeded")
	if err == nil {
		zzvrf.Reach("accepted")
	} else {
		zzvrf.Reach("rejected")
	}
	zzvrf.Reach("end")
}
