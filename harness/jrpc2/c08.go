package jrpc2

import (
	"context"
	"errors"

	"github.com/indexsupply/shovel/eth"
	"github.com/indexsupply/shovel/shovel/glf"
	"github.com/indexsupply/shovel/zzvrf"
)

// ZZ_C08_Seq: a sequence of n block requests through the caching client
// against an unchanging chain. Each request picks one of two ranges and (for
// the log plan) one of two callers whose filters match different logs of the
// same transaction. Any node call may fail (symbolic). maxreads is the
// configured reuse bound.
//   kind 0: headers+logs   1: blocks+traces   2: blocks+receipts   3: headers only   4: headers-only and full-block callers mixed
func ZZ_C08_Seq(kind, n, maxreads, failures int) {
	node := ZZHonest(100, 1)
	node.TwoLogs = true
	zzAllowFail = failures == 1
	c := New("http://node").WithMaxReads(maxreads)
	var f [2]*glf.Filter
	switch kind {
	case 0:
		f[0] = &glf.Filter{UseHeaders: true, UseLogs: true}
		f[1] = &glf.Filter{UseHeaders: true, UseLogs: true}
	case 1:
		f[0] = &glf.Filter{UseBlocks: true, UseTraces: true}
		f[1] = f[0]
	case 2:
		f[0] = &glf.Filter{UseBlocks: true, UseReceipts: true}
		f[1] = f[0]
	case 4: // different data plans on the same range: headers only vs full blocks
		f[0] = &glf.Filter{UseHeaders: true}
		f[1] = &glf.Filter{UseBlocks: true}
	case 5: // both on cached headers: one attaches logs, the other receipts, to the same shared blocks
		f[0] = &glf.Filter{UseHeaders: true, UseLogs: true}
		f[1] = &glf.Filter{UseHeaders: true, UseReceipts: true}
	default:
		f[0] = &glf.Filter{UseHeaders: true}
		f[1] = f[0]
	}
	var sinceFetch [4]int // per (cache, range): kind 4 uses the header cache and the block cache
	bound := maxreads
	if bound < 1 {
		bound = 1
	}
	for i := 0; i < n; i++ {
		key := zzvrf.Pick("range", 2)
		who := 0
		if kind == 0 || kind == 4 || kind == 5 {
			who = zzvrf.Pick("caller", 2)
		}
		start := uint64(100 + key)
		if kind == 4 {
			key += 2 * who
		}
		zzStart, zzLimit, zzTraceCall, zzCurFilter = start, 1, 0, who
		if kind == 5 {
			zzCurFilter = 2 // the logs caller's filter matches both logs
		}
		fetchesBefore, failsBefore := zzBlockFetches, zzFailures
		blocks, err := c.Get(context.Background(), "http://node", f[who], start, 1)
		fetched := zzBlockFetches != fetchesBefore
		if fetched {
			sinceFetch[key] = 1
		} else {
			sinceFetch[key]++
		}
		if err != nil {
			// T2: an error is only ever the node's error of this very call
			zzvrf.Assert(zzFailures != failsBefore, "no-error-served-from-cache")
			if fetched {
				sinceFetch[key] = 0
			}
			continue
		}
		zzvrf.Assert(sinceFetch[key] <= bound, "T3-segment-reuse-bounded-by-maxreads")
		// T1: same data as the uncached client would return
		zzvrf.Assert(len(blocks) == 1, "T1-one-block")
		if len(blocks) != 1 {
			return
		}
		b := &blocks[0]
		zzvrf.Assert(b.Num() == start, "T1-number")
		if kind != 1 {
			zzvrf.Assert(zzvrf.BytesEq(b.Header.Hash, node.BlockHash), "T1-hash")
		}
		switch kind {
		case 0:
			var tx *eth.Tx
			for ti := range b.Txs {
				if b.Txs[ti].Idx == 0 {
					tx = &b.Txs[ti]
				}
			}
			zzvrf.Assert(tx != nil, "T1-transaction-present")
			if tx == nil {
				return
			}
			wantIdx := node.LogIdx + uint64(who)
			count := 0
			for li := range tx.Logs {
				if uint64(tx.Logs[li].Idx) == wantIdx {
					count++
					wantAddr := node.LogAddr
					if who == 1 {
						wantAddr = node.LogAddrB
					}
					zzvrf.Assert(zzvrf.BytesEq(tx.Logs[li].Address, wantAddr), "T1-log-content")
				}
				for lj := range tx.Logs {
					if li != lj {
						zzvrf.Assert(tx.Logs[li].Idx != tx.Logs[lj].Idx, "T1-no-log-twice")
					}
				}
			}
			zzvrf.Assert(count == 1, "T1-matching-log-present-exactly-once")
		case 1:
			zzvrf.Assert(len(b.Txs) == 1, "T1-one-transaction")
			if len(b.Txs) == 1 {
				zzvrf.Assert(len(b.Txs[0].TraceActions) == 1, "T1-trace-actions-as-uncached")
				if len(b.Txs[0].TraceActions) == 1 {
					zzvrf.Assert(zzvrf.BytesEq(b.Txs[0].TraceActions[0].From, node.TraceFrom), "T1-trace-content")
				}
			}
		case 2:
			zzvrf.Assert(len(b.Txs) == 1, "T1-one-transaction")
			if len(b.Txs) == 1 {
				zzvrf.Assert(uint64(b.Txs[0].GasUsed) == node.TxGasUsed && len(b.Txs[0].Logs) == 1, "T1-receipt-as-uncached")
			}
		case 5:
			zzvrf.Assert(len(b.Txs) == 1, "T1-one-transaction")
			if len(b.Txs) != 1 {
				return
			}
			tx := &b.Txs[0]
			zzvrf.Assert(zzvrf.BytesEq(tx.PrecompHash, node.TxHash), "T1-transaction-hash")
			if who == 1 {
				// the receipts caller: every receipt-borne field as the uncached client delivers it
				zzvrf.Assert(uint64(tx.GasUsed) == node.TxGasUsed && byte(tx.Status) == node.TxStatus, "T1-receipt-as-uncached")
				zzvrf.Assert(zzvrf.BytesEq(tx.From, node.TxFrom) && zzvrf.BytesEq(tx.To, node.TxTo) && byte(tx.Type) == node.TxType, "T1-receipt-sender-recipient-type-as-uncached")
			} else {
				zzvrf.Assert(len(tx.Logs) >= 2, "T1-logs-present")
			}
		case 4:
			if who == 1 {
				zzvrf.Assert(len(b.Txs) == 1, "T1-transactions-as-uncached")
				if len(b.Txs) == 1 {
					zzvrf.Assert(zzvrf.BytesEq(b.Txs[0].PrecompHash, node.TxHash) && uint64(b.Txs[0].Nonce) == node.TxNonce, "T1-transaction-content")
				}
			} else {
				zzvrf.Assert(len(b.Txs) == 0, "T1-header-plan-has-no-transactions")
			}
		}
		zzvrf.Assert(len(c.bcache.segments) <= 5 && len(c.hcache.segments) <= 5, "T5-cache-size-bounded")
	}
	zzvrf.Reach("end")
}

// ZZ_C08_Prune: many distinct ranges; the cache keeps at most five segments
// and a fresh segment is never evicted before it is read.
func ZZ_C08_Prune(n int) {
	ZZHonest(100, 1)
	c := New("http://node").WithMaxReads(3)
	f := &glf.Filter{UseHeaders: true}
	stride := 1 + zzvrf.Pick("stride", 3)
	for i := 0; i < 2*n; i++ {
		start := uint64(100 + (i*stride)%n)
		zzStart, zzLimit = start, 1
		blocks, err := c.Get(context.Background(), "http://node", f, start, 1)
		zzvrf.Assert(err == nil && len(blocks) == 1 && blocks[0].Num() == start, "T1-data")
		zzvrf.Assert(len(c.hcache.segments) <= 5, "T5-cache-size-bounded")
	}
	zzvrf.Reach("end")
}

// ZZ_C08_Head: announcements (in any order, repeats and regressions), poller
// errors and Latest calls. A reported head is always an announced pair; a
// cache hit is at least the caller's floor; a cached head serves at most
// maxreads successive reads.
func ZZ_C08_Head(nops, maxreads int) {
	ZZHonest(100, 1)
	c := New("http://node").WithMaxReads(maxreads)
	type pair struct {
		n uint64
		h []byte
	}
	var announced []pair
	var handedOut []pair // what callers received and may keep
	hits := 0
	for i := 0; i < nops; i++ {
		switch zzvrf.Pick("op", 3) {
		case 0: // the poller announces a head
			p := pair{zzvrf.U64("announce.num"), zzvrf.Bytes("announce.hash", 32, 32)}
			zzvrf.Assume(p.n > 0 && p.n < 1<<62)
			announced = append(announced, p)
			c.lcache.update(eth.Uint64(p.n), p.h)
			hits = 0
		case 1: // the poller fails
			c.lcache.error(errors.New("poller"))
			hits = 0
		case 2: // a task asks for the head above its position
			floor := zzvrf.U64("floor")
			zzvrf.Assume(floor < 1<<62)
			own := pair{zzvrf.U64("node.head"), zzvrf.Bytes("node.head.hash", 32, 32)}
			zzvrf.Assume(own.n > 0 && own.n < 1<<62)
			zzHeadNum, zzHeadHash = own.n, own.h
			before := zzCalls
			num, hash, err := c.Latest(context.Background(), "http://node", floor)
			zzvrf.Assert(err == nil, "latest-ok")
			if err != nil {
				return
			}
			if zzCalls != before {
				announced = append(announced, own)
				hits = 0
			} else {
				hits++
				zzvrf.Assert(floor > 0 && num >= floor, "T4-hit-not-below-floor")
				bound := maxreads
				zzvrf.Assert(hits <= bound, "T3-head-reuse-bounded-by-maxreads")
			}
			ok := false
			for _, p := range announced {
				ok = zzvrf.Or(ok, zzvrf.And(p.n == num, zzvrf.BytesEq(p.h, hash)))
			}
			zzvrf.Assert(ok, "T4-head-is-an-announced-pair")
			handedOut = append(handedOut, pair{num, hash})
		}
	}
	// a pair a caller received stays an announced pair, whatever the cache does afterwards
	for _, got := range handedOut {
		ok := false
		for _, p := range announced {
			ok = zzvrf.Or(ok, zzvrf.And(p.n == got.n, zzvrf.BytesEq(p.h, got.h)))
		}
		zzvrf.Assert(ok, "T4-received-head-stays-an-announced-pair")
	}
	zzvrf.Reach("end")
}

// ZZ_C08_Conc: ncall callers request the same range concurrently through the
// caching client, under the engine's scheduler (scheduling points: the cache
// lock, the segment lock, the block lock, goroutine start/end, channel ops).
// Any node call may fail when failures == 1 (solver Boolean per call).
//   kind 0: headers+logs   1: blocks+traces   2: blocks+receipts   3: headers only
func ZZ_C08_Conc(kind, maxreads, budget, ncall, failures int) {
	node := ZZHonest(100, 1)
	node.TwoLogs = true
	zzAllowFail = failures == 1
	zzStart, zzLimit = 100, 1
	zzCurFilter = 2
	c := New("http://node").WithMaxReads(maxreads)
	var f *glf.Filter
	switch kind {
	case 0:
		f = &glf.Filter{UseHeaders: true, UseLogs: true}
	case 1:
		f = &glf.Filter{UseBlocks: true, UseTraces: true}
	case 2:
		f = &glf.Filter{UseBlocks: true, UseReceipts: true}
	default:
		f = &glf.Filter{UseHeaders: true}
	}
	zzvrf.Scheduled(budget, 120)
	res := make([][]eth.Block, ncall)
	errs := make([]error, ncall)
	done := make(chan int)
	for i := 0; i < ncall; i++ {
		i := i
		go func() {
			res[i], errs[i] = c.Get(context.Background(), "http://node", f, 100, 1)
			done <- i
		}()
	}
	for i := 0; i < ncall; i++ {
		<-done
	}
	bound := maxreads
	if bound < 1 {
		bound = 1
	}
	served := 0
	for i := 0; i < ncall; i++ {
		if errs[i] != nil {
			// T2: an error is only ever a node failure of this run, never a cached one
			zzvrf.Assert(zzFailures > 0, "no-error-served-from-cache")
			continue
		}
		served++
		zzvrf.Assert(len(res[i]) == 1, "T1-one-block")
		if len(res[i]) != 1 {
			return
		}
		b := &res[i][0]
		zzvrf.Assert(b.Num() == 100, "T1-number")
		if kind != 1 {
			zzvrf.Assert(zzvrf.BytesEq(b.Header.Hash, node.BlockHash), "T1-hash")
		}
		switch kind {
		case 0:
			zzvrf.Assert(len(b.Txs) == 1, "T1-transaction-present")
			if len(b.Txs) == 1 {
				logs := b.Txs[0].Logs
				zzvrf.Assert(len(logs) == 2, "T1-logs-neither-lost-nor-duplicated")
				if len(logs) == 2 {
					zzvrf.Assert(logs[0].Idx != logs[1].Idx, "T1-no-log-twice")
				}
			}
		case 1:
			zzvrf.Assert(len(b.Txs) == 1, "T1-one-transaction")
			if len(b.Txs) == 1 {
				zzvrf.Assert(len(b.Txs[0].TraceActions) == 1, "T1-trace-actions-as-uncached")
			}
		case 2:
			zzvrf.Assert(len(b.Txs) == 1, "T1-one-transaction")
			if len(b.Txs) == 1 {
				zzvrf.Assert(uint64(b.Txs[0].GasUsed) == node.TxGasUsed && len(b.Txs[0].Logs) == 1, "T1-receipt-as-uncached")
			}
		}
	}
	// T3: served reads need at least ceil(served/bound) successful fetches of
	// the range. Every data plan starts with exactly one header/block fetch
	// per segment fill, counted by zzBlockFetches (failed ones included, so
	// the comparison is only made on failure-free runs).
	if zzFailures == 0 {
		need := (served + bound - 1) / bound
		zzvrf.Assert(zzBlockFetches >= need, "T3-segment-reuse-bounded-by-maxreads")
	}
	zzvrf.Reach("end")
}

// ZZ_C08_HeadConc: two tasks call Latest concurrently while the poller
// announces a head (or fails), under the engine's scheduler. Every head a
// caller receives must be a pair the source announced (the poller's or the
// node's answer to a direct request), hits are not below the caller's floor.
//   pollerFails 1: the poller reports an error instead of a second head
func ZZ_C08_HeadConc(maxreads, budget, pollerFails int) {
	ZZHonest(100, 1)
	c := New("http://node").WithMaxReads(maxreads)
	type pair struct {
		n uint64
		h []byte
	}
	p0 := pair{zzvrf.U64("announce0.num"), zzvrf.Bytes("announce0.hash", 32, 32)}
	p1 := pair{zzvrf.U64("announce1.num"), zzvrf.Bytes("announce1.hash", 32, 32)}
	own := pair{zzvrf.U64("node.head"), zzvrf.Bytes("node.head.hash", 32, 32)}
	zzvrf.Assume(p0.n > 0 && p0.n < 1<<62 && p1.n > 0 && p1.n < 1<<62 && own.n > 0 && own.n < 1<<62)
	zzHeadNum, zzHeadHash = own.n, own.h
	var floors [2]uint64
	floors[0], floors[1] = zzvrf.U64("floor0"), zzvrf.U64("floor1")
	zzvrf.Assume(floors[0] < 1<<62 && floors[1] < 1<<62)
	c.lcache.update(eth.Uint64(p0.n), p0.h)
	zzvrf.Scheduled(budget, 120)
	var nums [2]uint64
	var hashes [2][]byte
	var errs [2]error
	done := make(chan int)
	for i := 0; i < 2; i++ {
		i := i
		go func() {
			nums[i], hashes[i], errs[i] = c.Latest(context.Background(), "http://node", floors[i])
			done <- i
		}()
	}
	go func() {
		if pollerFails == 1 {
			c.lcache.error(errors.New("poller"))
		} else {
			c.lcache.update(eth.Uint64(p1.n), p1.h)
		}
		done <- 2
	}()
	<-done
	<-done
	<-done
	for i := 0; i < 2; i++ {
		zzvrf.Assert(errs[i] == nil, "latest-ok")
		if errs[i] != nil {
			return
		}
		ok := zzvrf.And(nums[i] == own.n, zzvrf.BytesEq(hashes[i], own.h))
		ok = zzvrf.Or(ok, zzvrf.And(nums[i] == p0.n, zzvrf.BytesEq(hashes[i], p0.h)))
		if pollerFails != 1 {
			ok = zzvrf.Or(ok, zzvrf.And(nums[i] == p1.n, zzvrf.BytesEq(hashes[i], p1.h)))
		}
		zzvrf.Assert(ok, "T4-head-is-an-announced-pair")
	}
	zzvrf.Reach("end")
}
