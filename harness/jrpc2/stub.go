package jrpc2

// rpcstub: the node, cut at (*Client).do. The engine redirects do() to zzDo.
// It fills dest by walking the concrete response types exactly as the JSON
// decoder would after a syntactically valid body (contract R1 in DESIGN 3.1):
// pre-sized slices keep their elements' pointer fields and decode into the
// pointees; null sets the pointer to nil; a shorter array truncates, a longer
// one appends fresh elements; absent members leave fields untouched.

import (
	"context"
	"errors"
	"sync"

	"github.com/holiman/uint256"
	"github.com/indexsupply/shovel/eth"
	"github.com/indexsupply/shovel/zzvrf"
)

var (
	zzMode     int    // 0 adversarial, 1 honest
	zzStart    uint64 // honest: requested range (set by the harness)
	zzLimit    uint64
	zzMaxItems = 2 // receipts / logs / traces per answer
	zzCalls    int
	zzFailCall = -1 // honest mode: this call fails with a transport error
	zzNoErrors bool // adversarial: suppress error members and transport errors
	zzGhost    []zzItem
)

// zzItem records what the node said about one log/receipt/trace.
type zzItem struct {
	kind     byte // 'l' log, 'r' receipt, 't' trace
	blockNum uint64
	txIdx    uint64
	logIdx   uint64
	addr     []byte
	data     []byte
	gasUsed  uint64
	bhash    []byte // the block hash the item names (logs)
}

func zzErrMember() Error {
	if zzNoErrors || zzMode == 1 {
		return Error{}
	}
	// the code is symbolic (0 = no error member)
	e := Error{Code: zzvrf.Int("error.code"), Message: "m"}
	zzErrSeen = zzvrf.Or(zzErrSeen, e.Code != 0)
	return e
}

// zzErrSeen: some answer of this run carried an error member (code != 0).
var zzErrSeen bool

// zzDeviate: a structural corruption (null result, shorter/longer batch,
// other item count) is allowed while the budget lasts.
var zzBudget = 1

func zzDeviate(tag string, n int) int {
	if zzMode == 1 || zzBudget <= 0 {
		return 0
	}
	k := zzvrf.Pick(tag, n)
	if k != 0 {
		zzBudget--
	}
	return k
}

func zzHeader(h *eth.Header, want uint64) {
	if zzMode == 1 && zzNode != nil {
		zzNodeHeader(h, want)
		if zzAllowFail && zzvrf.Bool("honest-node-answers-with-a-wrong-number") {
			// a decodable but inconsistent answer: rejected by validation
			zzCountFailure()
			h.Number = eth.Uint64(want + 1)
		}
		return
	}
	if zzMode == 1 {
		h.Number = eth.Uint64(want)
		h.Hash = zzChainHash(want)
		if want > 0 {
			h.Parent = zzChainHash(want - 1)
		} else {
			h.Parent = make([]byte, 32)
		}
		h.Time = eth.Uint64(zzvrf.U64("time"))
		return
	}
	h.Number = eth.Uint64(zzvrf.U64("number"))
	h.Hash = zzvrf.Bytes("hash", 32, 32)
	h.Parent = zzvrf.Bytes("parentHash", 32, 32)
	h.Time = eth.Uint64(zzvrf.U64("timestamp"))
}

var zzHashes = map[uint64][]byte{}

// zzChainHash: the (symbolic) hash of canonical block n in honest mode.
func zzChainHash(n uint64) []byte {
	if h, ok := zzHashes[n]; ok {
		return h
	}
	h := zzvrf.Bytes("chain.hash", 32, 32)
	zzHashes[n] = h
	return h
}

func zzTx(t *eth.Tx, idx uint64) {
	t.Idx = eth.Uint64(idx)
	t.PrecompHash = zzvrf.Bytes("tx.hash", 32, 32)
	t.Nonce = eth.Uint64(zzvrf.U64("tx.nonce"))
	t.From = zzvrf.Bytes("tx.from", 20, 20)
	t.To = zzvrf.Bytes("tx.to", 20, 20)
	t.Data = zzvrf.Bytes("tx.input", 4, 4)
	t.Type = eth.Byte(zzvrf.U8("tx.type"))
	t.GasLimit = eth.Uint64(zzvrf.U64("tx.gas"))
	t.Value = uint256.Int{zzvrf.U64("tx.value"), 0, 0, 0}
	t.GasPrice = uint256.Int{zzvrf.U64("tx.gasPrice"), 0, 0, 0}
	t.MaxPriorityFeePerGas = uint256.Int{zzvrf.U64("tx.maxPriorityFeePerGas"), 0, 0, 0}
	t.MaxFeePerGas = uint256.Int{zzvrf.U64("tx.maxFeePerGas"), 0, 0, 0}
}

func zzBlockResult(b *eth.Block, want uint64) {
	zzHeader(&b.Header, want)
	if zzMode == 1 && zzNode != nil {
		b.Txs = make(eth.Txs, 1)
		zzNodeTx(&b.Txs[0])
		return
	}
	ntx := 1 - zzDeviate("ntx", 2)
	b.Txs = make(eth.Txs, ntx)
	for i := range b.Txs {
		idx := uint64(i)
		if zzMode == 0 {
			idx = zzvrf.U64("tx.idx")
		}
		zzTx(&b.Txs[i], idx)
	}
}

// zzDo replaces (*Client).do.
var zzMu sync.Mutex // the stub's own counters are shared by concurrent callers

func zzDo(c *Client, ctx context.Context, url string, dest, req any) error {
	zzMu.Lock()
	call := zzCalls
	zzCalls++
	zzMu.Unlock()
	if ZZOnCall != nil {
		ZZOnCall(c)
	}
	if zzMode == 0 && !zzNoErrors {
		if zzvrf.Bool("transport-error") {
			return errors.New("transport")
		}
	}
	if zzMode == 1 && call == zzFailCall {
		return errors.New("transport")
	}
	if zzMode == 1 && zzAllowFail && zzvrf.Bool("honest-node-transport-error") {
		zzCountFailure()
		return errors.New("transport")
	}
	switch dest.(type) {
	case *[]blockResp, *[]headerResp:
		zzMu.Lock()
		zzBlockFetches++
		zzMu.Unlock()
	}
	switch d := dest.(type) {
	case *[]blockResp:
		zzSlice(len(*d), func(n int) { *d = zzResizeBlock(*d, n) })
		for i := range *d {
			r := &(*d)[i]
			r.Error = zzErrMember()
			if zzDeviate("null-result", 2) == 1 {
				r.Block = nil
				continue
			}
			if r.Block == nil {
				r.Block = &eth.Block{}
			}
			zzBlockResult(r.Block, zzStart+uint64(i))
		}
	case *[]headerResp:
		zzSlice(len(*d), func(n int) { *d = zzResizeHeader(*d, n) })
		for i := range *d {
			r := &(*d)[i]
			r.Error = zzErrMember()
			if zzDeviate("null-result", 2) == 1 {
				r.Header = nil
				continue
			}
			if r.Header == nil {
				r.Header = &eth.Header{}
			}
			zzHeader(r.Header, zzStart+uint64(i))
		}
	case *headerResp:
		d.Error = zzErrMember()
		if zzDeviate("null-result", 2) == 1 {
			d.Header = nil
			break
		}
		if d.Header == nil {
			d.Header = &eth.Header{}
		}
		if zzMode == 1 && zzHeadHash != nil {
			d.Header.Number = eth.Uint64(zzHeadNum)
			d.Header.Hash = zzHeadHash
			break
		}
		zzHeader(d.Header, zzHeadNum)
	case *[]receiptResp:
		zzSlice(len(*d), func(n int) {
			for len(*d) < n {
				*d = append(*d, receiptResp{})
			}
			*d = (*d)[:n]
		})
		for i := range *d {
			r := &(*d)[i]
			r.Error = zzErrMember()
			n := zzItems("nreceipts")
			r.Result = make([]receiptResult, n)
			for j := range r.Result {
				x := &r.Result[j]
				if zzMode == 1 && zzNode != nil {
					n := zzNode
					x.BlockNum, x.TxIdx, x.BlockHash = eth.Uint64(zzStart+uint64(i)), 0, zzCp(n.BlockHash)
					x.TxHash, x.TxType, x.TxFrom, x.TxTo = zzCp(n.TxHash), eth.Byte(n.TxType), zzCp(n.TxFrom), zzCp(n.TxTo)
					x.Status, x.GasUsed = eth.Byte(n.TxStatus), eth.Uint64(n.TxGasUsed)
					x.EffectiveGasPrice = uint256.Int{n.TxEffGasPrice, 0, 0, 0}
					x.ContractAddress = zzCp(n.TxContractAddr)
					x.Logs = eth.Logs{{Idx: eth.Uint64(n.LogIdx), Address: zzCp(n.LogAddr), Topics: []eth.Bytes{zzCp(n.LogTopic0)}, Data: zzCp(n.LogData)}}
					continue
				}
				if zzMode == 1 {
					x.BlockNum = eth.Uint64(zzStart + uint64(i))
					x.TxIdx = eth.Uint64(j)
					x.BlockHash = zzChainHash(zzStart + uint64(i))
				} else {
					x.BlockNum = eth.Uint64(zzvrf.U64("receipt.blockNumber"))
					x.TxIdx = eth.Uint64(zzvrf.U64("receipt.transactionIndex"))
					x.BlockHash = zzvrf.Bytes("receipt.blockHash", 32, 32)
				}
				x.TxHash = zzvrf.Bytes("receipt.transactionHash", 32, 32)
				x.TxType = eth.Byte(zzvrf.U8("receipt.type"))
				x.TxFrom = zzvrf.Bytes("receipt.from", 20, 20)
				x.TxTo = zzvrf.Bytes("receipt.to", 20, 20)
				x.Status = eth.Byte(zzvrf.U8("receipt.status"))
				x.GasUsed = eth.Uint64(zzvrf.U64("receipt.gasUsed"))
				x.EffectiveGasPrice = uint256.Int{zzvrf.U64("receipt.effectiveGasPrice"), 0, 0, 0}
				x.ContractAddress = zzvrf.Bytes("receipt.contractAddress", 20, 20)
				x.Logs = eth.Logs{{Idx: eth.Uint64(zzvrf.U64("receipt.log.logIndex")), Address: zzvrf.Bytes("receipt.log.address", 20, 20), Data: zzvrf.Bytes("receipt.log.data", 4, 4)}}
				zzGhost = append(zzGhost, zzItem{kind: 'r', blockNum: uint64(x.BlockNum), txIdx: uint64(x.TxIdx), gasUsed: uint64(x.GasUsed)})
			}
		}
	case *[]any:
		// logs(): [ &headerResp{}, &logResp{} ]
		h := (*d)[0].(*headerResp)
		l := (*d)[1].(*logResp)
		h.Error = zzErrMember()
		l.Error = zzErrMember()
		if zzDeviate("null-result", 2) == 1 {
			h.Header = nil
		} else {
			h.Header = &eth.Header{}
			zzHeader(h.Header, zzStart+zzLimit-1)
		}
		n := zzItems("nlogs")
		if zzMode == 1 && zzNode != nil && zzNode.TwoLogs {
			nd := zzNode
			l.Result = nil
			if zzCurFilter == 0 || zzCurFilter == 2 {
				l.Result = append(l.Result, logResult{Log: &eth.Log{Idx: eth.Uint64(nd.LogIdx), Address: zzCp(nd.LogAddr), Topics: []eth.Bytes{zzCp(nd.LogTopic0)}, Data: zzCp(nd.LogData)},
					BlockNum: eth.Uint64(zzStart), TxIdx: 0, BlockHash: zzCp(nd.BlockHash), TxHash: zzCp(nd.TxHash)})
			}
			if zzCurFilter == 1 || zzCurFilter == 2 {
				l.Result = append(l.Result, logResult{Log: &eth.Log{Idx: eth.Uint64(nd.LogIdx + 1), Address: zzCp(nd.LogAddrB), Topics: []eth.Bytes{zzCp(nd.LogTopic0)}, Data: zzCp(nd.LogData)},
					BlockNum: eth.Uint64(zzStart), TxIdx: 0, BlockHash: zzCp(nd.BlockHash), TxHash: zzCp(nd.TxHash)})
			}
			n = 0
		} else {
			l.Result = make([]logResult, n)
		}
		for j := 0; j < n; j++ {
			x := &l.Result[j]
			if zzMode == 1 && zzNode != nil {
				n := zzNode
				x.Log = &eth.Log{Idx: eth.Uint64(n.LogIdx), Address: zzCp(n.LogAddr), Topics: []eth.Bytes{zzCp(n.LogTopic0)}, Data: zzCp(n.LogData)}
				x.BlockNum, x.TxIdx, x.BlockHash, x.TxHash = eth.Uint64(zzStart), 0, zzCp(n.BlockHash), zzCp(n.TxHash)
				continue
			}
			x.Log = &eth.Log{
				Idx:     eth.Uint64(zzvrf.U64("log.logIndex")),
				Address: zzvrf.Bytes("log.address", 20, 20),
				Topics:  []eth.Bytes{zzvrf.Bytes("log.topic0", 32, 32)},
				Data:    zzvrf.Bytes("log.data", 4, 4),
			}
			if zzMode == 1 {
				x.BlockNum = eth.Uint64(zzStart)
				x.TxIdx = 0
				x.BlockHash = zzChainHash(zzStart)
			} else {
				x.BlockNum = eth.Uint64(zzvrf.U64("log.blockNumber"))
				x.TxIdx = eth.Uint64(zzvrf.U64("log.transactionIndex"))
				x.BlockHash = zzvrf.Bytes("log.blockHash", 32, 32)
			}
			x.TxHash = zzvrf.Bytes("log.transactionHash", 32, 32)
			zzGhost = append(zzGhost, zzItem{kind: 'l', blockNum: uint64(x.BlockNum), txIdx: uint64(x.TxIdx), logIdx: uint64(x.Log.Idx), addr: x.Log.Address, data: x.Log.Data, bhash: x.BlockHash})
		}
	case *traceBlockResp:
		d.Error = zzErrMember()
		n := zzItems("ntraces")
		d.Result = make([]traceBlockResult, n)
		for j := range d.Result {
			x := &d.Result[j]
			if zzMode == 1 && zzNode != nil {
				n := zzNode
				x.BlockNum, x.TxIdx, x.BlockHash, x.TxHash = zzStart+uint64(zzTraceCall)%zzLimit, 0, zzCp(n.BlockHash), zzCp(n.TxHash)
				x.Action.From, x.Action.To, x.Action.CallType = zzCp(n.TraceFrom), zzCp(n.TraceTo), "call"
				x.Action.Value = uint256.Int{n.TraceValue, 0, 0, 0}
				continue
			}
			if zzMode == 1 {
				x.BlockNum = zzStart + uint64(zzTraceCall)
				x.TxIdx = 0
				x.BlockHash = zzChainHash(x.BlockNum)
			} else {
				x.BlockNum = zzvrf.U64("trace.blockNumber")
				x.TxIdx = zzvrf.U64("trace.transactionPosition")
				x.BlockHash = zzvrf.Bytes("trace.blockHash", 32, 32)
			}
			x.TxHash = zzvrf.Bytes("trace.transactionHash", 32, 32)
			x.Action.From = zzvrf.Bytes("trace.action.from", 20, 20)
			x.Action.To = zzvrf.Bytes("trace.action.to", 20, 20)
			x.Action.CallType = "call"
			x.Action.Value = uint256.Int{zzvrf.U64("trace.action.value"), 0, 0, 0}
			zzGhost = append(zzGhost, zzItem{kind: 't', blockNum: x.BlockNum, txIdx: x.TxIdx, addr: x.Action.From})
		}
		zzMu.Lock()
		zzTraceCall++
		zzMu.Unlock()
	default:
		panic("zzDo: unknown destination type")
	}
	return nil
}

var (
	zzHeadNum      uint64
	zzHeadHash     []byte
	zzTraceCall    int
	zzAllowFail    bool
	zzFailures     int
	zzBlockFetches int
	zzCurFilter    int // honest eth_getLogs: 0 -> only log A matches, 1 -> only log B, 2 -> both
)

// zzSlice lets the adversarial node answer a batch with one element fewer,
// the same number, or one more than requested.
func zzSlice(n int, resize func(int)) {
	if zzMode == 1 {
		return
	}
	switch zzDeviate("batch-length", 3) {
	case 1:
		if n > 0 {
			resize(n - 1)
		}
	case 2:
		resize(n + 1)
	}
}

func zzResizeBlock(s []blockResp, n int) []blockResp {
	for len(s) < n {
		s = append(s, blockResp{})
	}
	return s[:n]
}

func zzResizeHeader(s []headerResp, n int) []headerResp {
	for len(s) < n {
		s = append(s, headerResp{})
	}
	return s[:n]
}

// zzItems: number of receipts/logs/traces in one answer: normally 1; as a
// deviation 0 or zzMaxItems.
func zzItems(tag string) int {
	switch zzDeviate(tag, 3) {
	case 1:
		return 0
	case 2:
		return zzMaxItems
	}
	return 1
}

// URL accessors for harnesses that use a nil *URL (net/url is not interpreted)
func zzURLString(u *URL) string   { return "http://node" }
func zzURLHostname(u *URL) string { return "node" }

func zzMustURL(provided string) *URL { return &URL{provided: provided} }

// ZZOnCall observes every node call (which client issued it).
var ZZOnCall func(c *Client)

// the background head pollers do I/O only; their effect on the head cache is
// modelled by explicit announcements where a harness needs them
func zzNoPoll(c *Client, ctx context.Context, url string) {}
func zzNoListen(c *Client, ctx context.Context)           {}

// zzCountFailure: the failure counter is shared by concurrent callers of the
// stub (C08/C18 harnesses), so it is kept under the stub's lock.
func zzCountFailure() {
	zzMu.Lock()
	zzFailures++
	zzMu.Unlock()
}
