package jrpc2

import (
	"context"

	"github.com/indexsupply/shovel/eth"
	"github.com/indexsupply/shovel/shovel/glf"
	"github.com/indexsupply/shovel/zzvrf"
)

// ZZ_C03_Switch: the source replaces block 100 (new hash, timestamp, log data
// and gas used; same parent) at an arbitrary point of the node calls a task
// makes for it: between the calls of one Get (header fetch / log or receipt
// fetch), or between two Gets of the same range through the caching client
// (the re-request after a detected reorg; maxreads 2 as with two
// integrations). Whatever a successful Get returns must be ONE version of
// the block: the fields and items it carries belong to the block whose hash it
// presents - otherwise orphaned data is stored under the canonical hash and
// no later parent check can notice.
//   plan 0: headers+logs  1: blocks+logs  2: blocks+receipts  3: headers+receipts
//   at:  the switch happens before node call number `at` (counted over both Gets)
//   gets: 1 or 2 successive Gets of the same range
func ZZ_C03_Switch(plan, at, gets int) {
	node := ZZHonest(100, 1)
	zzStart, zzLimit, zzCurFilter = 100, 1, 2
	hashA, timeA, dataA, gasA := node.BlockHash, node.BlockTime, node.LogData, node.TxGasUsed
	hashB, timeB, dataB, gasB := zzNZ("nodeB.block_hash", 32), zzNZ64("nodeB.block_time"), zzNZ("nodeB.log_data", 4), zzNZ64("nodeB.tx_gas_used")
	zzvrf.Assume(!zzvrf.BytesEq(hashA, hashB))
	calls, curGet, switchGet := 0, 0, -1
	ZZOnCall = func(c *Client) {
		if calls == at {
			node.BlockHash, node.BlockTime, node.LogData, node.TxGasUsed = hashB, timeB, dataB, gasB
			switchGet = curGet
		}
		calls++
	}
	defer func() { ZZOnCall = nil }()
	c := New("http://node").WithMaxReads(2)
	var f *glf.Filter
	switch plan {
	case 0:
		f = &glf.Filter{UseHeaders: true, UseLogs: true}
	case 1:
		f = &glf.Filter{UseBlocks: true, UseLogs: true}
	case 2:
		f = &glf.Filter{UseBlocks: true, UseReceipts: true}
	default:
		f = &glf.Filter{UseHeaders: true, UseReceipts: true}
	}
	lastOK, lastB := false, false
	for g := 0; g < gets; g++ {
		curGet = g
		blocks, err := c.Get(context.Background(), "http://node", f, 100, 1)
		lastOK = err == nil
		if err != nil {
			zzvrf.Reach("rejected")
			continue
		}
		zzvrf.Assert(len(blocks) == 1, "one-block")
		if len(blocks) != 1 {
			return
		}
		b := &blocks[0]
		isA, isB := zzvrf.BytesEq(b.Header.Hash, hashA), zzvrf.BytesEq(b.Header.Hash, hashB)
		lastB = isB
		zzvrf.Assert(zzvrf.Or(isA, isB), "hash-is-one-of-the-chain's-versions")
		zzvrf.Assert(zzvrf.And(zzvrf.Implies(isA, uint64(b.Header.Time) == timeA), zzvrf.Implies(isB, uint64(b.Header.Time) == timeB)), "header-fields-belong-to-the-block-the-hash-names")
		for ti := range b.Txs {
			tx := &b.Txs[ti]
			for li := range tx.Logs {
				zzvrf.Assert(zzvrf.And(zzvrf.Implies(isA, zzvrf.BytesEq(tx.Logs[li].Data, dataA)), zzvrf.Implies(isB, zzvrf.BytesEq(tx.Logs[li].Data, dataB))), "logs-belong-to-the-block-the-hash-names")
			}
			if plan >= 2 {
				zzvrf.Assert(zzvrf.And(zzvrf.Implies(isA, uint64(tx.GasUsed) == gasA), zzvrf.Implies(isB, uint64(tx.GasUsed) == gasB)), "receipts-belong-to-the-block-the-hash-names")
			}
		}
		zzvrf.Reach("accepted")
	}
	if switchGet >= 0 && gets-1 >= switchGet+2 {
		// a segment cached before the switch expires after at most maxreads (2) further
		// reads: the second Get after the one the switch fell into sees the current version
		zzvrf.Assert(lastOK && lastB, "retries-converge-to-the-current-version")
	}
	zzvrf.Reach("end")
}

var _ eth.Block
