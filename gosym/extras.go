package main

// Keccak and uint256 models.

import (
	"go/types"
	"math/big"

	"github.com/holiman/uint256"
	"golang.org/x/crypto/sha3"
	"golang.org/x/tools/go/ssa"
)

func keccak(b []byte) []byte {
	k := sha3.NewLegacyKeccak256()
	k.Write(b)
	return k.Sum(nil)
}

func icKeccak(e *Engine, fr *frame, fn *ssa.Function, args []Value, c *ssa.CallCommon) (Value, bool) {
	if b, ok := e.goBytes(args[0]); ok {
		return e.bytesFromGo(keccak(b)), true
	}
	// symbolic input: uninterpreted function K(arr, off, len) -> 256 bits.
	s := args[0].(*Slice)
	var arr *Term
	if s.bobj != nil {
		arr = s.bobj.arr
	} else {
		arr = e.bytesToString(s).arr
	}
	h := e.tt.App("KECCAK", SBV, 256, arr, s.off, s.len)
	out := e.tt.ArrConst(nil)
	for i := 0; i < 32; i++ {
		out = e.tt.Store(out, e.c64(uint64(i)), e.tt.Extract(h, 255-8*i, 248-8*i))
	}
	n := e.c64(32)
	return &Slice{bobj: e.newByteObj(out), off: e.c64(0), len: n, cap: n}, true
}

const u256pkg = "github.com/holiman/uint256"

func registerUint256() {
	intercepts["(*"+u256pkg+".Int).Dec"] = icU256Dec
	intercepts["(*"+u256pkg+".Int).String"] = icU256Dec
	intercepts["(*"+u256pkg+".Int).Value"] = icU256Value
	intercepts["(*"+u256pkg+".Int).SetFromDecimal"] = icU256SetFromDecimal
}

// u256Term reads a *uint256.Int as one 256-bit term.
func (e *Engine) u256Term(p *Pointer) *Term {
	agg := p.cell.v.(*Agg)
	t := agg.cells[3].v.(*Term)
	for i := 2; i >= 0; i-- {
		t = e.tt.Concat(t, agg.cells[i].v.(*Term))
	}
	return t
}

// decString renders a 256-bit term in decimal. Concrete values are exact; a
// symbolic value becomes the uninterpreted DEC(x) represented as a 1-byte-tagged
// symbolic string whose content is tied to x by the UF (injectivity is not
// assumed; equality of renderings of equal values follows from congruence).
func (e *Engine) decString(x *Term) *StringV {
	if x.op == OpConst {
		return e.concStr(x.Big().Text(10))
	}
	e.res.Stubs["uint256 decimal rendering as uninterpreted DEC(x)"]++
	// 78 digits max; represent as fixed 32-byte opaque payload DEC(x)
	h := e.tt.App("DEC", SBV, 256, x)
	out := e.tt.ArrConst(nil)
	for i := 0; i < 32; i++ {
		out = e.tt.Store(out, e.c64(uint64(i)), e.tt.Extract(h, 255-8*i, 248-8*i))
	}
	return &StringV{arr: out, off: e.c64(0), len: e.c64(32)}
}

func icU256Dec(e *Engine, fr *frame, fn *ssa.Function, args []Value, c *ssa.CallCommon) (Value, bool) {
	return e.decString(e.u256Term(args[0].(*Pointer))), true
}

func icU256Value(e *Engine, fr *frame, fn *ssa.Function, args []Value, c *ssa.CallCommon) (Value, bool) {
	s := e.decString(e.u256Term(args[0].(*Pointer)))
	return &Tuple{vals: []Value{&Iface{typ: types.Typ[types.String], val: s}, &Iface{}}}, true
}

func icU256SetFromDecimal(e *Engine, fr *frame, fn *ssa.Function, args []Value, c *ssa.CallCommon) (Value, bool) {
	s, ok := e.goString(args[1])
	if !ok {
		return nil, false
	}
	var z uint256.Int
	err := z.SetFromDecimal(s)
	agg := args[0].(*Pointer).cell.v.(*Agg)
	if err != nil {
		return e.newErrorString(e.concStr(err.Error())), true
	}
	for i := 0; i < 4; i++ {
		e.raceAccessCell(agg.cells[i], true, e.pos, false)
		agg.cells[i].v = e.c64(z[i])
	}
	return &Iface{}, true
}

var _ = big.NewInt
