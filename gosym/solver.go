package main

// One persistent SMT solver process per engine. The assertion stack mirrors
// the path condition of the current path (one push frame per pc term) so that
// re-executed path prefixes cost nothing.

import (
	"bufio"
	"fmt"
	"io"
	"math/big"
	"os"
	"os/exec"
	"strings"
	"time"
)

var slowLog = os.Getenv("GOSYM_SLOW") != ""

type SatResult int

const (
	Unsat SatResult = iota
	Sat
	Unknown
)

func (r SatResult) String() string { return [...]string{"unsat", "sat", "unknown"}[r] }

type Solver struct {
	tt      *TermTable
	name    string
	cmd     *exec.Cmd
	in      io.WriteCloser
	out     *bufio.Reader
	done    map[int]bool
	ufs     map[string]bool
	stack   []*Term
	seq     int
	Queries int
	NSat    int
	NUnsat  int
	NUnk    int
	Time    time.Duration
	Errors  []string
	timeout int // ms
	log     io.Writer
	fb      *Solver // one-shot fallback process (reset per query)
	quickMs int     // incremental attempt budget
	NOneShot int
}

func solverArgv(name string, timeoutMs int) []string {
	switch name {
	case "z3":
		return []string{"/usr/bin/z3", "-in", fmt.Sprintf("-t:%d", timeoutMs)}
	case "z3-new":
		return []string{"z3-new", "-in", fmt.Sprintf("-t:%d", timeoutMs)}
	case "cvc5":
		return []string{"cvc5", "--incremental", "--lang", "smt2", "--produce-models", fmt.Sprintf("--tlimit-per=%d", timeoutMs)}
	}
	panic("unknown solver " + name)
}

func NewSolver(tt *TermTable, name string, timeoutMs int) (*Solver, error) {
	argv := solverArgv(name, timeoutMs)
	cmd := exec.Command(argv[0], argv[1:]...)
	in, err := cmd.StdinPipe()
	if err != nil {
		return nil, err
	}
	out, err := cmd.StdoutPipe()
	if err != nil {
		return nil, err
	}
	cmd.Stderr = cmd.Stdout
	if err := cmd.Start(); err != nil {
		return nil, err
	}
	s := &Solver{tt: tt, name: name, cmd: cmd, in: in, out: bufio.NewReaderSize(out, 1<<16), done: map[int]bool{}, ufs: map[string]bool{}, timeout: timeoutMs}
	s.send("(set-option :global-declarations true)\n(set-option :produce-models true)\n(set-logic ALL)\n")
	return s, nil
}

func (s *Solver) Close() {
	if s.fb != nil {
		s.fb.Close()
		s.fb = nil
	}
	if s.cmd != nil {
		s.in.Close()
		s.cmd.Process.Kill()
		s.cmd.Wait()
		s.cmd = nil
	}
}

func (s *Solver) send(txt string) {
	if s.log != nil {
		io.WriteString(s.log, txt)
	}
	io.WriteString(s.in, txt)
}

// roundtrip sends txt followed by an echo marker and returns output lines
func (s *Solver) roundtrip(txt string) []string {
	s.seq++
	marker := fmt.Sprintf("<<done %d>>", s.seq)
	s.send(txt + "(echo \"" + marker + "\")\n")
	var lines []string
	for {
		line, err := s.out.ReadString('\n')
		if strings.Contains(line, marker) {
			break
		}
		if line != "" {
			lines = append(lines, strings.TrimRight(line, "\n"))
		}
		if err != nil {
			s.Errors = append(s.Errors, "solver died: "+err.Error())
			lines = append(lines, "(error \"solver died\")")
			break
		}
	}
	return lines
}

func (s *Solver) sync(pc []*Term, sb *strings.Builder) {
	k := 0
	for k < len(pc) && k < len(s.stack) && pc[k] == s.stack[k] {
		k++
	}
	if n := len(s.stack) - k; n > 0 {
		fmt.Fprintf(sb, "(pop %d)\n", n)
		s.stack = s.stack[:k]
	}
	for _, t := range pc[k:] {
		s.tt.Emit(t, s.done, s.ufs, sb)
		fmt.Fprintf(sb, "(push 1)\n(assert %s)\n", t.ref())
		s.stack = append(s.stack, t)
	}
}

// Check decides pc ∧ extra. If vals is non-nil and the result is sat, the
// listed terms are evaluated in the model and returned.
func (s *Solver) Check(pc []*Term, extra *Term, vals []*Term) (SatResult, []*Term) {
	t0 := time.Now()
	defer func() {
		d := time.Since(t0)
		s.Time += d
		if slowLog && d > 2*time.Second {
			ex := ""
			if extra != nil {
				ex = extra.str(8)
			}
			fmt.Fprintf(os.Stderr, "SLOW query %.1fs |pc|=%d extra=%s\n", d.Seconds(), len(pc), ex)
			if dir := os.Getenv("GOSYM_DUMP"); dir != "" {
				var sb strings.Builder
				sb.WriteString("(set-logic ALL)\n")
				done, ufs := map[int]bool{}, map[string]bool{}
				for _, t := range pc {
					s.tt.Emit(t, done, ufs, &sb)
					fmt.Fprintf(&sb, "(assert %s)\n", t.ref())
				}
				if extra != nil {
					s.tt.Emit(extra, done, ufs, &sb)
					fmt.Fprintf(&sb, "(assert %s)\n", extra.ref())
				}
				sb.WriteString("(check-sat)\n")
				os.WriteFile(fmt.Sprintf("%s/q%d.smt2", dir, s.Queries), []byte(sb.String()), 0o644)
			}
			for i, t := range pc {
				if i >= len(pc)-6 {
					fmt.Fprintf(os.Stderr, "    pc[%d]=%s\n", i, t.str(6))
				}
			}
		}
	}()
	s.Queries++
	var sb strings.Builder
	s.sync(pc, &sb)
	if extra != nil {
		s.tt.Emit(extra, s.done, s.ufs, &sb)
	}
	for _, v := range vals {
		s.tt.Emit(v, s.done, s.ufs, &sb)
	}
	sb.WriteString("(push 1)\n")
	if extra != nil {
		fmt.Fprintf(&sb, "(assert %s)\n", extra.ref())
	}
	if s.quickMs > 0 {
		fmt.Fprintf(&sb, "(set-option :timeout %d)\n", s.quickMs)
	}
	sb.WriteString("(check-sat)\n")
	lines := s.roundtrip(sb.String())
	res := Unknown
	bad := false
	for _, l := range lines {
		l = strings.TrimSpace(l)
		switch {
		case l == "sat":
			res = Sat
		case l == "unsat":
			res = Unsat
		case l == "unknown" || l == "timeout":
			res = Unknown
		case strings.HasPrefix(l, "(error"):
			bad = true
			s.Errors = append(s.Errors, l)
		}
	}
	if bad {
		res = Unknown
	}
	var out []*Term
	if res == Sat && len(vals) > 0 {
		out = s.getValues(vals)
	}
	s.roundtrip("(pop 1)\n")
	if res == Unknown && !bad && s.quickMs > 0 {
		res, out = s.oneShot(pc, extra, vals)
	}
	switch res {
	case Sat:
		s.NSat++
	case Unsat:
		s.NUnsat++
	default:
		s.NUnk++
	}
	return res, out
}

// oneShot decides the query in a second solver process that is reset before
// every query, so that the solver's non-incremental tactic pipeline
// (bit-blasting + SAT) is used; this is much faster on hard bit-vector/array
// queries than the incremental core.
func (s *Solver) oneShot(pc []*Term, extra *Term, vals []*Term) (SatResult, []*Term) {
	if s.fb == nil {
		fb, err := NewSolver(s.tt, s.name, s.timeout)
		if err != nil {
			s.Errors = append(s.Errors, "fallback solver: "+err.Error())
			return Unknown, nil
		}
		s.fb = fb
	}
	s.NOneShot++
	fb := s.fb
	var sb strings.Builder
	sb.WriteString("(reset)\n(set-option :produce-models true)\n(set-logic ALL)\n")
	fmt.Fprintf(&sb, "(set-option :timeout %d)\n", s.timeout)
	fb.done, fb.ufs = map[int]bool{}, map[string]bool{}
	for _, t := range pc {
		s.tt.Emit(t, fb.done, fb.ufs, &sb)
		fmt.Fprintf(&sb, "(assert %s)\n", t.ref())
	}
	if extra != nil {
		s.tt.Emit(extra, fb.done, fb.ufs, &sb)
		fmt.Fprintf(&sb, "(assert %s)\n", extra.ref())
	}
	for _, v := range vals {
		s.tt.Emit(v, fb.done, fb.ufs, &sb)
	}
	sb.WriteString("(check-sat)\n")
	lines := fb.roundtrip(sb.String())
	res := Unknown
	for _, l := range lines {
		l = strings.TrimSpace(l)
		switch {
		case l == "sat":
			res = Sat
		case l == "unsat":
			res = Unsat
		case strings.HasPrefix(l, "(error"):
			s.Errors = append(s.Errors, l)
			return Unknown, nil
		}
	}
	var out []*Term
	if res == Sat && len(vals) > 0 {
		out = fb.getValues(vals)
	}
	return res, out
}

func (s *Solver) getValues(vals []*Term) []*Term {
	out := make([]*Term, len(vals))
	const chunk = 200
	for base := 0; base < len(vals); base += chunk {
		end := base + chunk
		if end > len(vals) {
			end = len(vals)
		}
		var sb strings.Builder
		sb.WriteString("(get-value (")
		for _, v := range vals[base:end] {
			sb.WriteString(v.ref())
			sb.WriteString(" ")
		}
		sb.WriteString("))\n")
		lines := s.roundtrip(sb.String())
		txt := strings.Join(lines, " ")
		if strings.Contains(txt, "(error \"") {
			s.Errors = append(s.Errors, txt)
			return nil
		}
		toks := tokenize(txt)
		// ((name val) (name val) ...)
		pos := 0
		expect := func(tk string) bool {
			if pos < len(toks) && toks[pos] == tk {
				pos++
				return true
			}
			return false
		}
		if !expect("(") {
			return nil
		}
		for i := base; i < end; i++ {
			if !expect("(") {
				return nil
			}
			// skip the name expression (may be parenthesised)
			pos = skipSexp(toks, pos)
			if pos >= len(toks) {
				return nil
			}
			v := toks[pos]
			pos++
			out[i] = s.parseValue(v, vals[i], toks, &pos)
			if !expect(")") {
				return nil
			}
		}
	}
	return out
}

func skipSexp(toks []string, pos int) int {
	if pos >= len(toks) {
		return pos
	}
	if toks[pos] != "(" {
		return pos + 1
	}
	depth := 0
	for pos < len(toks) {
		if toks[pos] == "(" {
			depth++
		} else if toks[pos] == ")" {
			depth--
			if depth == 0 {
				return pos + 1
			}
		}
		pos++
	}
	return pos
}

func (s *Solver) parseValue(v string, like *Term, toks []string, pos *int) *Term {
	switch {
	case v == "true":
		return s.tt.True
	case v == "false":
		return s.tt.False
	case strings.HasPrefix(v, "#x"):
		n, _ := new(big.Int).SetString(v[2:], 16)
		return s.tt.BigConst(like.w, n)
	case strings.HasPrefix(v, "#b"):
		n, _ := new(big.Int).SetString(v[2:], 2)
		return s.tt.BigConst(like.w, n)
	case v == "(":
		// (_ bvN w)
		if *pos+2 < len(toks) && toks[*pos] == "_" && strings.HasPrefix(toks[*pos+1], "bv") {
			n, _ := new(big.Int).SetString(toks[*pos+1][2:], 10)
			*pos += 3
			if *pos < len(toks) && toks[*pos] == ")" {
				*pos++
			}
			return s.tt.BigConst(like.w, n)
		}
		*pos = skipSexp(toks, *pos-1)
	}
	return nil
}

func tokenize(s string) []string {
	var toks []string
	i := 0
	for i < len(s) {
		c := s[i]
		switch {
		case c == ' ' || c == '\t' || c == '\n' || c == '\r':
			i++
		case c == '(' || c == ')':
			toks = append(toks, string(c))
			i++
		case c == '|':
			j := i + 1
			for j < len(s) && s[j] != '|' {
				j++
			}
			toks = append(toks, s[i:min(j+1, len(s))])
			i = j + 1
		default:
			j := i
			for j < len(s) && !strings.ContainsRune(" \t\n\r()", rune(s[j])) {
				j++
			}
			toks = append(toks, s[i:j])
			i = j
		}
	}
	return toks
}
