package main

// Scheduled mode: goroutines of the code under analysis become engine
// threads (one host goroutine each, exactly one runs at a time). At every
// synchronisation operation the choice "which runnable thread moves next" is
// an enumerated decision of the path exploration, bounded by a preemption
// budget and a bound on scheduling points per path. Data stays symbolic as
// usual. Deadlock (no runnable thread while some are blocked) and a panic in
// a goroutine are reported as violations.

import (
	"fmt"
	"go/token"
	"go/types"
	"sync"

	"golang.org/x/tools/go/ssa"
)

type thread struct {
	id     int
	resume chan struct{}
	done   bool
	ready  func() bool // nil: runnable
	why    string
	curFn  []*ssa.Function
	depth  int
	pos    token.Pos
	name   string
}

type threadAbort struct{}

type pendingSend struct {
	val   Value
	taken bool
}

type threadState struct {
	threads   []*thread
	cur       *thread
	budget    int
	points    int
	maxPoints int
	frozen    bool // set-up phase: no enumerated decisions, points not counted
	frozenPoints int
	abort     chan struct{}
	wg        sync.WaitGroup
	fatal     any
	sendq     map[*ChanObj][]*pendingSend
	recvWait  map[*ChanObj]int
	groups    map[*Cell]*int // errgroup -> running children
}

func newThreadState(budget, maxPoints int) *threadState {
	ts := &threadState{budget: budget, maxPoints: maxPoints, abort: make(chan struct{}),
		sendq: map[*ChanObj][]*pendingSend{}, recvWait: map[*ChanObj]int{}, groups: map[*Cell]*int{}}
	main := &thread{id: 0, resume: make(chan struct{}, 1), name: "main"}
	ts.threads = []*thread{main}
	ts.cur = main
	return ts
}

func (ts *threadState) killAll() {
	select {
	case <-ts.abort:
	default:
		close(ts.abort)
	}
	ts.wg.Wait()
}

// park blocks the calling host goroutine until its thread is resumed.
func (ts *threadState) park(e *Engine, me *thread) {
	select {
	case <-me.resume:
	case <-ts.abort:
		panic(threadAbort{})
	}
	if me.id == 0 && ts.fatal != nil {
		f := ts.fatal
		ts.fatal = nil
		panic(f)
	}
}

func (ts *threadState) switchTo(e *Engine, t *thread) {
	prev := ts.cur
	if prev == t {
		return
	}
	prev.curFn, prev.depth, prev.pos = e.curFn, e.depth, e.pos
	ts.cur = t
	e.curFn, e.depth, e.pos = t.curFn, t.depth, t.pos
	t.resume <- struct{}{}
	if !prev.done {
		ts.park(e, prev)
		// resumed: engine state was restored by whoever switched to us
	}
}

func (ts *threadState) runnable(t *thread) bool {
	return !t.done && (t.ready == nil || t.ready())
}

// raiseToMain hands an engine-level outcome from a non-main thread to main.
func (ts *threadState) raiseToMain(e *Engine, r any) {
	ts.fatal = r
	main := ts.threads[0]
	me := ts.cur
	me.curFn, me.depth, me.pos = e.curFn, e.depth, e.pos
	ts.cur = main
	e.curFn, e.depth, e.pos = main.curFn, main.depth, main.pos
	main.resume <- struct{}{}
}

// reschedule is a scheduling point. forceAway: the current thread gives way
// to another runnable thread if there is one (sleep), at no budget cost.
func (ts *threadState) reschedule(e *Engine, why string, forceAway bool) {
	if !ts.frozen {
		ts.points++
		if ts.points > ts.maxPoints {
			e.res.Stubs["schedule: path cut at the scheduling-point bound"]++
			panic(pathEnd{"pruned", "scheduling-point bound"})
		}
	} else {
		ts.frozenPoints++
		if ts.frozenPoints > 100000 {
			panic(pathEnd{"budget", "frozen schedule does not terminate"})
		}
	}
	cur := ts.cur
	curOK := ts.runnable(cur)
	var others []*thread
	for _, t := range ts.threads {
		if t != cur && ts.runnable(t) {
			others = append(others, t)
		}
	}
	var options []*thread
	switch {
	case curOK && forceAway && len(others) > 0:
		options = others
	case curOK:
		options = []*thread{cur}
		if ts.budget > 0 {
			options = append(options, others...)
		}
	default:
		options = others
	}
	if len(options) == 0 {
		// nobody can move
		blocked := ""
		for _, t := range ts.threads {
			if !t.done {
				blocked += fmt.Sprintf(" %s(%s)", t.name, t.why)
			}
		}
		e.reportViolation("no-deadlock", "deadlock", "all goroutines are blocked:"+blocked, e.posString(e.pos), nil)
		panic(pathEnd{"deadlock", blocked})
	}
	k := ts.choose(e, len(options))
	next := options[k]
	if next != cur {
		if curOK && !forceAway && !ts.frozen {
			ts.budget--
		}
		e.events = append(e.events, fmt.Sprintf("switch %s -> %s at %s", cur.name, next.name, why))
		ts.switchTo(e, next)
	}
}

// block waits until ready() holds; the thread is not runnable meanwhile.
func (ts *threadState) block(e *Engine, ready func() bool, why string) {
	me := ts.cur
	for !ready() {
		me.ready, me.why = ready, why
		ts.reschedule(e, why, false)
		me.ready, me.why = nil, ""
	}
}

func (ts *threadState) yield(e *Engine, why string) {
	if e.spec {
		return
	}
	ts.reschedule(e, why, false)
}

func (ts *threadState) sleep(e *Engine) { ts.reschedule(e, "sleep", true) }

// spawnFn starts a new engine thread running body.
func (ts *threadState) spawnFn(e *Engine, name string, body func()) {
	t := &thread{id: len(ts.threads), resume: make(chan struct{}, 1), name: fmt.Sprintf("g%d:%s", len(ts.threads), name)}
	ts.threads = append(ts.threads, t)
	ts.wg.Add(1)
	go func() {
		defer ts.wg.Done()
		defer func() {
			r := recover()
			if r == nil {
				return
			}
			switch x := r.(type) {
			case threadAbort:
				return
			case *goPanic:
				// an uncaught panic in a goroutine crashes the process
				e.reportViolation("no-goroutine-panic", "panic", x.msg, e.posString(x.pos)+" "+x.fn, nil)
				t.done = true
				ts.raiseToMain(e, pathEnd{"panic", "goroutine panic: " + x.msg})
			default:
				t.done = true
				ts.raiseToMain(e, r)
			}
		}()
		select {
		case <-t.resume:
		case <-ts.abort:
			return
		}
		body()
		t.done = true
		// pick who continues
		var others []*thread
		for _, o := range ts.threads {
			if o != t && ts.runnable(o) {
				others = append(others, o)
			}
		}
		if len(others) == 0 {
			blocked := ""
			for _, o := range ts.threads {
				if !o.done {
					blocked += fmt.Sprintf(" %s(%s)", o.name, o.why)
				}
			}
			e.reportViolation("no-deadlock", "deadlock", "all goroutines are blocked:"+blocked, e.posString(e.pos), nil)
			ts.raiseToMain(e, pathEnd{"deadlock", blocked})
			return
		}
		func() {
			defer func() {
				if r := recover(); r != nil {
					if _, ok := r.(threadAbort); ok {
						return
					}
					ts.raiseToMain(e, r)
				}
			}()
			k := ts.choose(e, len(others))
			ts.switchTo(e, others[k])
		}()
	}()
	ts.yield(e, "go "+name)
}

func (ts *threadState) spawn(e *Engine, d deferred) {
	name := "?"
	if cl, ok := d.fn.(*Closure); ok && cl != nil {
		name = cl.fn.Name()
	}
	ts.spawnFn(e, name, func() { e.invoke(nil, d.fn, d.args, d.call, nil) })
}

// ---------- channels ----------

func (ts *threadState) send(e *Engine, ch *ChanV, v Value, pos token.Pos) {
	if ch.obj == nil {
		ts.block(e, func() bool { return false }, "send on nil channel")
	}
	o := ch.obj
	ts.yield(e, "send")
	if o.closed {
		panic(&goPanic{val: &Iface{typ: types.Typ[types.String], val: e.concStr("send on closed channel")}, kind: "close", msg: "send on closed channel", pos: pos})
	}
	if len(o.buf) < o.cap {
		o.buf = append(o.buf, v)
		return
	}
	ps := &pendingSend{val: v}
	ts.sendq[o] = append(ts.sendq[o], ps)
	ts.block(e, func() bool { return ps.taken || o.closed }, "chan send")
	if !ps.taken {
		panic(&goPanic{val: &Iface{typ: types.Typ[types.String], val: e.concStr("send on closed channel")}, kind: "close", msg: "send on closed channel", pos: pos})
	}
}

func (ts *threadState) recvReady(o *ChanObj) bool {
	return len(o.buf) > 0 || len(ts.sendq[o]) > 0 || o.closed
}

func (ts *threadState) take(e *Engine, o *ChanObj, et types.Type) (Value, bool) {
	if len(o.buf) > 0 {
		v := o.buf[0]
		o.buf = o.buf[1:]
		return v, true
	}
	if q := ts.sendq[o]; len(q) > 0 {
		ps := q[0]
		ts.sendq[o] = q[1:]
		ps.taken = true
		return ps.val, true
	}
	return e.zero(et), false
}

func (ts *threadState) recv(e *Engine, ch *ChanV, et types.Type, commaOk bool, pos token.Pos) Value {
	if ch.obj == nil {
		ts.block(e, func() bool { return false }, "receive on nil channel")
	}
	o := ch.obj
	ts.yield(e, "recv")
	ts.recvWait[o]++
	ts.block(e, func() bool { return ts.recvReady(o) }, "chan receive")
	ts.recvWait[o]--
	v, ok := ts.take(e, o, et)
	if commaOk {
		return &Tuple{vals: []Value{v, e.tt.Bool(ok)}}
	}
	return v
}

func (ts *threadState) selectStmt(e *Engine, fr *frame, x *ssa.Select) Value {
	ts.yield(e, "select")
	type st struct {
		o    *ChanObj
		recv bool
		val  Value
		et   types.Type
	}
	var states []st
	for _, s := range x.States {
		ch := e.eval(fr, s.Chan).(*ChanV)
		q := st{o: ch.obj, recv: s.Dir == types.RecvOnly, et: s.Chan.Type().Underlying().(*types.Chan).Elem()}
		if !q.recv {
			q.val = e.eval(fr, s.Send)
		}
		states = append(states, q)
	}
	readyIdx := func() int {
		for i, s := range states {
			if s.o == nil {
				continue
			}
			if s.recv && ts.recvReady(s.o) {
				return i
			}
			if !s.recv && (len(s.o.buf) < s.o.cap || ts.recvWait[s.o] > 0) && !s.o.closed {
				return i
			}
		}
		return -1
	}
	idx := readyIdx()
	if idx < 0 && x.Blocking {
		ts.block(e, func() bool { return readyIdx() >= 0 }, "select")
		idx = readyIdx()
	}
	vals := []Value{e.c64(^uint64(0)), e.tt.False}
	for _, s := range states {
		if s.recv {
			vals = append(vals, e.zero(s.et))
		}
	}
	if idx < 0 {
		return &Tuple{vals: vals}
	}
	vals[0] = e.c64(uint64(idx))
	s := states[idx]
	if s.recv {
		v, ok := ts.take(e, s.o, s.et)
		ri := 2
		for i := 0; i < idx; i++ {
			if states[i].recv {
				ri++
			}
		}
		vals[ri] = v
		vals[1] = e.tt.Bool(ok)
	} else {
		if len(s.o.buf) < s.o.cap {
			s.o.buf = append(s.o.buf, s.val)
		} else {
			ts.sendq[s.o] = append(ts.sendq[s.o], &pendingSend{val: s.val})
		}
	}
	return &Tuple{vals: vals}
}

// ---------- locks, wait groups ----------

func (ts *threadState) lock(e *Engine, st *Cell) {
	ts.yield(e, "lock")
	ts.block(e, func() bool { return st.v.(*Term).lo == 0 }, "mutex")
	st.v = e.tt.Const(32, 1)
	if e.raceOn() {
		e.raceAdd('a', st, e.curPos(), false, 0)
	}
}

func (ts *threadState) unlock(e *Engine, st *Cell) { ts.yield(e, "unlock") }

func (ts *threadState) waitZero(e *Engine, ctr *Cell) {
	ts.yield(e, "wait")
	ts.block(e, func() bool { return ctr.v.(*Term).lo == 0 }, "WaitGroup.Wait")
}

func (ts *threadState) access(e *Engine, c *Cell, write bool, pos token.Pos) {}

// choose is an enumerated scheduling decision, or the first option while the
// schedule is frozen (set-up phase along one representative schedule).
func (ts *threadState) choose(e *Engine, n int) int {
	if ts.frozen {
		return 0
	}
	return e.pick(n)
}
