package main

// Thread layer placeholder: sequential semantics are implemented in calls.go.
// The scheduled mode and race recording are added on top of this type.

import (
	"go/token"
	"go/types"

	"golang.org/x/tools/go/ssa"
)

type threadState struct {
	recording bool
}

func (t *threadState) killAll()                        {}
func (t *threadState) spawn(e *Engine, d deferred)      { panic(e.unsupported("threads: spawn")) }
func (t *threadState) yield(e *Engine, why string)      {}
func (t *threadState) send(e *Engine, ch *ChanV, v Value, pos token.Pos) {
	panic(e.unsupported("threads: send"))
}
func (t *threadState) recv(e *Engine, ch *ChanV, et types.Type, commaOk bool, pos token.Pos) Value {
	panic(e.unsupported("threads: recv"))
}
func (t *threadState) selectStmt(e *Engine, fr *frame, x *ssa.Select) Value {
	panic(e.unsupported("threads: select"))
}
func (t *threadState) access(e *Engine, c *Cell, write bool, pos token.Pos) {}

func (t *threadState) lock(e *Engine, st *Cell)      { panic(e.unsupported("threads: lock")) }
func (t *threadState) unlock(e *Engine, st *Cell)    {}
func (t *threadState) waitZero(e *Engine, ctr *Cell) { panic(e.unsupported("threads: wait")) }
