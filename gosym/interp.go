package main

// The SSA interpreter: executes go/ssa instructions over engine values.

import (
	"fmt"
	"go/constant"
	"go/token"
	"go/types"
	"math/big"
	"unicode/utf8"

	"golang.org/x/tools/go/ssa"
)

type deferred struct {
	fn   Value // *Closure, *ssa.Function, *ssa.Builtin
	args []Value
	call *ssa.CallCommon
	recv *Iface
}

type frame struct {
	fn        *ssa.Function
	env       map[ssa.Value]Value
	defers    []deferred
	panicking *goPanic
	deferOf   *frame // set when this frame runs as a deferred call
	symIfs    map[ssa.Instruction]int
	caller    *frame
	result    Value
}

func (e *Engine) raise(kind, msg string, pos token.Pos) *goPanic {
	fn := ""
	if n := len(e.curFn); n > 0 {
		fn = e.curFn[n-1].String()
	}
	gp := &goPanic{val: &Iface{typ: types.Typ[types.String], val: e.concStr("runtime error: " + msg)}, kind: kind, msg: "runtime error: " + msg, pos: pos, fn: fn}
	e.lastPanic = gp
	return gp
}

// require forks: continues when cond holds, panics on the other side.
func (e *Engine) require(cond *Term, kind, msg string, pos token.Pos) {
	if cond == e.tt.True {
		return
	}
	if !e.branch(cond) {
		panic(e.raise(kind, msg, pos))
	}
}

func (e *Engine) callFunction(fn *ssa.Function, args []Value, env []Value, deferOf *frame) (ret Value) {
	if len(fn.Blocks) == 0 {
		panic(e.unsupported("call of function without body: " + fn.String()))
	}
	e.depth++
	if e.depth > 400 {
		panic(pathEnd{"budget", "call depth"})
	}
	e.curFn = append(e.curFn, fn)
	e.res.Funcs[fn.String()]++
	fr := &frame{fn: fn, env: make(map[ssa.Value]Value, 16), deferOf: deferOf}
	for i, p := range fn.Params {
		fr.env[p] = args[i]
	}
	for i, fv := range fn.FreeVars {
		fr.env[fv] = env[i]
	}
	defer func() {
		r := recover()
		if _, aborted := r.(threadAbort); aborted {
			panic(r) // the path is over; engine state belongs to another thread
		}
		e.depth--
		if n := len(e.curFn); n > 0 {
			e.curFn = e.curFn[:n-1]
		}
		if r != nil {
			gp, ok := r.(*goPanic)
			if !ok {
				panic(r)
			}
			e.depth++
			e.curFn = append(e.curFn, fn)
			fr.panicking = gp
			e.runDefers(fr)
			e.depth--
			e.curFn = e.curFn[:len(e.curFn)-1]
			if fr.panicking != nil {
				panic(fr.panicking)
			}
			// recovered
			if fn.Recover != nil {
				e.depth++
				e.curFn = append(e.curFn, fn)
				ret = e.runBlocks(fr, fn.Recover)
				e.depth--
				e.curFn = e.curFn[:len(e.curFn)-1]
			} else {
				ret = e.zeroResults(fn)
			}
		}
	}()
	return e.runBlocks(fr, fn.Blocks[0])
}

func (e *Engine) zeroResults(fn *ssa.Function) Value {
	res := fn.Signature.Results()
	switch res.Len() {
	case 0:
		return nil
	case 1:
		return e.zero(res.At(0).Type())
	}
	return e.zero(res)
}

func (e *Engine) runDefers(fr *frame) {
	for len(fr.defers) > 0 {
		d := fr.defers[len(fr.defers)-1]
		fr.defers = fr.defers[:len(fr.defers)-1]
		func() {
			defer func() {
				if r := recover(); r != nil {
					gp, ok := r.(*goPanic)
					if !ok {
						panic(r)
					}
					fr.panicking = gp
				}
			}()
			e.invoke(fr, d.fn, d.args, d.call, fr)
		}()
	}
}

type inEdge struct {
	pred  *ssa.BasicBlock
	guard *Term
}

// enterPhis assigns the phi nodes of b for the given incoming edges (one
// edge with guard true in ordinary control flow; several guarded edges after
// a merged region). It returns the number of phis.
func (e *Engine) enterPhis(fr *frame, b *ssa.BasicBlock, edges []inEdge) (int, bool) {
	nphi := 0
	if len(edges) == 0 {
		return 0, true
	}
	idx := make([]int, len(edges))
	for k, ed := range edges {
		idx[k] = -1
		for i, p := range b.Preds {
			if p == ed.pred {
				idx[k] = i
				break
			}
		}
	}
	var vals []Value
	for _, in := range b.Instrs {
		phi, ok := in.(*ssa.Phi)
		if !ok {
			break
		}
		nphi++
		var acc Value
		for k := len(edges) - 1; k >= 0; k-- {
			v := e.eval(fr, phi.Edges[idx[k]])
			if acc == nil && k == len(edges)-1 {
				acc = v
				continue
			}
			if v == acc {
				continue
			}
			tv, ok1 := v.(*Term)
			ta, ok2 := acc.(*Term)
			if !ok1 || !ok2 {
				return nphi, false
			}
			acc = e.tt.Ite(edges[k].guard, tv, ta)
		}
		vals = append(vals, acc)
	}
	for i := 0; i < nphi; i++ {
		fr.env[b.Instrs[i].(*ssa.Phi)] = vals[i]
	}
	return nphi, true
}

func (e *Engine) runBlocks(fr *frame, b *ssa.BasicBlock) Value {
	var edges []inEdge
	for {
		nphi, ok := e.enterPhis(fr, b, edges)
		if !ok {
			panic(e.unsupported("internal: unmergeable phi after region merge"))
		}
		var next *ssa.BasicBlock
		merged := false
		for _, in := range b.Instrs[nphi:] {
			e.steps++
			if e.steps > e.cfg.MaxSteps {
				panic(pathEnd{"budget", "steps"})
			}
			if e.steps&0xffff == 0 {
				e.checkDeadline()
			}
			switch x := in.(type) {
			case *ssa.Jump:
				next = b.Succs[0]
			case *ssa.If:
				c := e.eval(fr, x.Cond).(*Term)
				if c.op != OpBool {
					if fr.symIfs == nil {
						fr.symIfs = map[ssa.Instruction]int{}
					}
					fr.symIfs[x]++
					if fr.symIfs[x] > e.unwind {
						panic(pathEnd{"unwind", fmt.Sprintf("%s at %s (bound %d)", fr.fn.String(), e.posString(x.Cond.Pos()), e.unwind)})
					}
					if !e.cfg.NoMerge {
						if tgt, eds := e.tryMerge(fr, b, c); tgt != nil {
							next, edges, merged = tgt, eds, true
							break
						}
					}
				}
				if e.branch(c) {
					next = b.Succs[0]
				} else {
					next = b.Succs[1]
				}
			case *ssa.Return:
				var ret Value
				switch len(x.Results) {
				case 0:
				case 1:
					ret = e.eval(fr, x.Results[0])
				default:
					tp := &Tuple{vals: make([]Value, len(x.Results))}
					for i, r := range x.Results {
						tp.vals[i] = e.eval(fr, r)
					}
					ret = tp
				}
				return ret
			case *ssa.Panic:
				v := e.eval(fr, x.X)
				msg := "panic: " + e.describe(v, 3)
				gp := &goPanic{val: v, kind: "explicit", msg: msg, pos: x.Pos(), fn: fr.fn.String()}
				e.lastPanic = gp
				panic(gp)
			default:
				if p := in.Pos(); p.IsValid() {
					e.pos = p
				}
				e.exec(fr, in)
			}
		}
		if next == nil {
			panic(e.unsupported("block without terminator"))
		}
		if !merged {
			edges = []inEdge{{pred: b, guard: e.tt.True}}
		}
		b = next
	}
}

type specAbort struct{}

// tryMerge if-converts the side-effect-free region below a symbolic branch.
// Blocks whose predecessors all lie inside the region and whose instructions
// are pure (no stores, calls, allocations, possible panics) are evaluated
// under guards instead of forking; the region's exit edges are grouped by
// target and a single decision picks the target. Returns nil when nothing
// could be merged.
func (e *Engine) tryMerge(fr *frame, b *ssa.BasicBlock, c *Term) (*ssa.BasicBlock, []inEdge) {
	type edge struct {
		from, to *ssa.BasicBlock
		guard    *Term
	}
	pending := []edge{{b, b.Succs[0], c}, {b, b.Succs[1], e.tt.Not(c)}}
	evaluated := map[*ssa.BasicBlock]bool{b: true}
	stopped := map[*ssa.BasicBlock]bool{}
	var defined []ssa.Value
	nEval := 0
	for progress := true; progress && nEval < 64; {
		progress = false
		// candidate targets
		seen := map[*ssa.BasicBlock]bool{}
		for _, ed := range pending {
			x := ed.to
			if seen[x] || evaluated[x] || stopped[x] {
				continue
			}
			seen[x] = true
			ready := true
			for _, p := range x.Preds {
				if !evaluated[p] || p == x {
					ready = false
					break
				}
			}
			if !ready {
				continue
			}
			// all edges into x must already be pending (preds fully evaluated)
			var ins []inEdge
			g := e.tt.False
			for _, pe := range pending {
				if pe.to == x {
					ins = append(ins, inEdge{pe.from, pe.guard})
					g = e.tt.Or(g, pe.guard)
				}
			}
			// b itself may reach x by only one of its two edges; other preds
			// must have contributed an edge or be unreachable (guard false).
			outs, defs, ok := e.specBlock(fr, x, ins, g)
			if !ok {
				stopped[x] = true
				continue
			}
			nEval++
			evaluated[x] = true
			defined = append(defined, defs...)
			var np []edge
			for _, pe := range pending {
				if pe.to != x {
					np = append(np, pe)
				}
			}
			for _, o := range outs {
				if o.guard != e.tt.False {
					np = append(np, edge{x, o.pred, o.guard})
				}
			}
			pending = np
			progress = true
			break
		}
	}
	if nEval == 0 {
		return nil, nil
	}
	// group exits by target
	var targets []*ssa.BasicBlock
	byT := map[*ssa.BasicBlock][]inEdge{}
	for _, pe := range pending {
		if pe.guard == e.tt.False {
			continue
		}
		if _, ok := byT[pe.to]; !ok {
			targets = append(targets, pe.to)
		}
		byT[pe.to] = append(byT[pe.to], inEdge{pe.from, pe.guard})
	}
	if len(targets) == 0 {
		panic(pathEnd{"pruned", "merge: no exits"})
	}
	// targets must not be inside the evaluated region (no cycles) and their
	// phis must be mergeable; otherwise give up and fork normally.
	for _, t := range targets {
		if evaluated[t] && t != b {
			for _, d := range defined {
				delete(fr.env, d)
			}
			return nil, nil
		}
	}
	e.res.Stubs["if-conversion of pure regions"]++
	for i, t := range targets {
		if i == len(targets)-1 {
			if ok := e.phisMergeable(fr, t, byT[t]); !ok {
				return e.splitEdges(fr, t, byT[t])
			}
			// the remaining guard is implied by pc on this side
			g := e.tt.False
			for _, ed := range byT[t] {
				g = e.tt.Or(g, ed.guard)
			}
			e.addPCImplied(g)
			return t, byT[t]
		}
		g := e.tt.False
		for _, ed := range byT[t] {
			g = e.tt.Or(g, ed.guard)
		}
		if e.branch(g) {
			if ok := e.phisMergeable(fr, t, byT[t]); !ok {
				return e.splitEdges(fr, t, byT[t])
			}
			return t, byT[t]
		}
	}
	panic("unreachable")
}

// addPCImplied records a condition that is implied by the decisions taken so
// far (needed because guards of untaken exits were negated one by one).
func (e *Engine) addPCImplied(g *Term) {
	if g != e.tt.True {
		e.addPC(g)
	}
}

func (e *Engine) phisMergeable(fr *frame, t *ssa.BasicBlock, ins []inEdge) bool {
	if len(ins) <= 1 {
		return true
	}
	for _, in := range t.Instrs {
		phi, ok := in.(*ssa.Phi)
		if !ok {
			break
		}
		var first Value
		for k, ed := range ins {
			idx := -1
			for i, p := range t.Preds {
				if p == ed.pred {
					idx = i
				}
			}
			v := e.eval(fr, phi.Edges[idx])
			if k == 0 {
				first = v
				continue
			}
			if v == first {
				continue
			}
			_, ok1 := v.(*Term)
			_, ok2 := first.(*Term)
			if !ok1 || !ok2 {
				return false
			}
		}
	}
	return true
}

// splitEdges forks over the individual incoming edges of t when its phis
// carry non-scalar values that cannot be expressed as ite terms.
func (e *Engine) splitEdges(fr *frame, t *ssa.BasicBlock, ins []inEdge) (*ssa.BasicBlock, []inEdge) {
	for i, ed := range ins {
		if i == len(ins)-1 {
			e.addPCImplied(ed.guard)
			return t, []inEdge{{ed.pred, e.tt.True}}
		}
		if e.branch(ed.guard) {
			return t, []inEdge{{ed.pred, e.tt.True}}
		}
	}
	panic("unreachable")
}

// specBlock evaluates block x speculatively under guard g. It returns the
// guarded out-edges (pred field = successor block) or ok=false if the block
// is not pure.
func (e *Engine) specBlock(fr *frame, x *ssa.BasicBlock, ins []inEdge, g *Term) (outs []inEdge, defs []ssa.Value, ok bool) {
	saved := map[ssa.Value]Value{}
	had := map[ssa.Value]bool{}
	note := func(v ssa.Value) {
		if _, done := saved[v]; done || had[v] {
			return
		}
		if old, ok := fr.env[v]; ok {
			saved[v] = old
		} else {
			had[v] = true
		}
		defs = append(defs, v)
	}
	rollback := func() {
		for _, d := range defs {
			if old, ok := saved[d]; ok {
				fr.env[d] = old
			} else {
				delete(fr.env, d)
			}
		}
	}
	defer func() {
		if r := recover(); r != nil {
			e.spec = false
			_, isAbort := r.(specAbort)
			if _, isPanic := r.(*goPanic); isPanic {
				isAbort = true
			}
			if isAbort {
				rollback()
				outs, defs, ok = nil, nil, false
				return
			}
			panic(r)
		}
	}()
	// static purity check first
	for _, in := range x.Instrs {
		switch y := in.(type) {
		case *ssa.Phi, *ssa.BinOp, *ssa.Convert, *ssa.ChangeType, *ssa.Index, *ssa.Extract, *ssa.Field, *ssa.Jump, *ssa.If, *ssa.DebugRef, *ssa.FieldAddr, *ssa.IndexAddr, *ssa.Slice, *ssa.ChangeInterface:
		case *ssa.UnOp:
			if y.Op == token.ARROW {
				return nil, nil, false
			}
		case *ssa.Call:
			// len/cap/min/max builtins only
			bi, isB := y.Call.Value.(*ssa.Builtin)
			if !isB || !(bi.Name() == "len" || bi.Name() == "cap" || bi.Name() == "min" || bi.Name() == "max") {
				return nil, nil, false
			}
		default:
			return nil, nil, false
		}
	}
	for _, in := range x.Instrs {
		if v, ok := in.(ssa.Value); ok {
			note(v)
		}
	}
	e.spec = true
	nphi, okp := e.enterPhis(fr, x, ins)
	if !okp {
		panic(specAbort{})
	}
	for _, in := range x.Instrs[nphi:] {
		e.steps++
		switch y := in.(type) {
		case *ssa.Jump:
			outs = append(outs, inEdge{x.Succs[0], g})
		case *ssa.If:
			c := e.eval(fr, y.Cond).(*Term)
			outs = append(outs, inEdge{x.Succs[0], e.tt.And(g, c)}, inEdge{x.Succs[1], e.tt.And(g, e.tt.Not(c))})
		default:
			e.exec(fr, in)
		}
	}
	e.spec = false
	return outs, defs, true
}

// ---------- operand evaluation ----------

func (e *Engine) eval(fr *frame, v ssa.Value) Value {
	switch x := v.(type) {
	case *ssa.Const:
		return e.constValue(x)
	case *ssa.Global:
		return &Pointer{cell: e.globalCell(x)}
	case *ssa.Function:
		return &Closure{fn: x}
	case *ssa.Builtin:
		return x
	}
	r, ok := fr.env[v]
	if !ok {
		panic(e.unsupported(fmt.Sprintf("unbound SSA value %s (%T) in %s", v.Name(), v, fr.fn)))
	}
	return r
}

func (e *Engine) constValue(c *ssa.Const) Value {
	t := c.Type()
	if c.Value == nil {
		return e.zero(t)
	}
	if _, ok := t.Underlying().(*types.Interface); ok {
		panic(e.unsupported("non-nil constant of interface type"))
	}
	if tp, ok := t.Underlying().(*types.TypeParam); ok {
		_ = tp
		panic(e.unsupported("type-param constant"))
	}
	b := t.Underlying().(*types.Basic)
	switch {
	case b.Info()&types.IsBoolean != 0:
		return e.tt.Bool(constant.BoolVal(c.Value))
	case b.Info()&types.IsString != 0:
		return e.concStr(constant.StringVal(c.Value))
	case b.Info()&types.IsInteger != 0:
		w, _, _ := intWidth(b)
		iv := constant.ToInt(c.Value)
		if u, ok := constant.Uint64Val(iv); ok {
			return e.tt.Const(w, u)
		}
		if i, ok := constant.Int64Val(iv); ok {
			return e.tt.Const(w, uint64(i))
		}
		bi, _ := new(big.Int).SetString(iv.ExactString(), 10)
		return e.tt.BigConst(w, bi)
	case b.Info()&types.IsFloat != 0:
		f, _ := constant.Float64Val(c.Value)
		return FloatV{f}
	}
	panic(e.unsupported("constant of type " + t.String()))
}

// ---------- instructions ----------

func (e *Engine) exec(fr *frame, in ssa.Instruction) {
	switch x := in.(type) {
	case *ssa.DebugRef:
	case *ssa.Alloc:
		fr.env[x] = &Pointer{cell: e.newCell(x.Type().(*types.Pointer).Elem())}
	case *ssa.BinOp:
		fr.env[x] = e.binop(x.Op, e.eval(fr, x.X), e.eval(fr, x.Y), x.X.Type(), x.Y.Type(), x.Pos())
	case *ssa.UnOp:
		fr.env[x] = e.unop(fr, x)
	case *ssa.Call:
		fr.env[x] = e.doCall(fr, &x.Call, x.Pos())
	case *ssa.ChangeInterface:
		fr.env[x] = e.eval(fr, x.X)
	case *ssa.ChangeType:
		fr.env[x] = e.eval(fr, x.X)
	case *ssa.Convert:
		fr.env[x] = e.convert(e.eval(fr, x.X), x.X.Type(), x.Type(), x.Pos())
	case *ssa.MultiConvert:
		fr.env[x] = e.convert(e.eval(fr, x.X), x.X.Type(), x.Type(), x.Pos())
	case *ssa.Defer:
		d := e.prepareCall(fr, &x.Call)
		fr.defers = append(fr.defers, d)
	case *ssa.RunDefers:
		e.runDefers(fr)
		if fr.panicking != nil {
			gp := fr.panicking
			fr.panicking = nil
			panic(gp)
		}
	case *ssa.Extract:
		fr.env[x] = e.eval(fr, x.Tuple).(*Tuple).vals[x.Index]
	case *ssa.Field:
		fr.env[x] = e.eval(fr, x.X).(*Struct).fields[x.Field]
	case *ssa.FieldAddr:
		p := e.eval(fr, x.X).(*Pointer)
		if p.IsNil() {
			panic(e.raise("nil", "invalid memory address or nil pointer dereference", x.Pos()))
		}
		agg, ok := p.cell.v.(*Agg)
		if !ok {
			panic(e.unsupported("FieldAddr on non-aggregate"))
		}
		fr.env[x] = &Pointer{cell: agg.cells[x.Field]}
	case *ssa.Index:
		fr.env[x] = e.index(fr, x)
	case *ssa.IndexAddr:
		fr.env[x] = e.indexAddr(fr, x)
	case *ssa.Lookup:
		fr.env[x] = e.lookup(fr, x)
	case *ssa.MakeClosure:
		c := &Closure{fn: x.Fn.(*ssa.Function)}
		for _, b := range x.Bindings {
			c.env = append(c.env, e.eval(fr, b))
		}
		fr.env[x] = c
	case *ssa.MakeInterface:
		fr.env[x] = &Iface{typ: x.X.Type(), val: e.eval(fr, x.X)}
	case *ssa.MakeMap:
		mt := x.Type().Underlying().(*types.Map)
		fr.env[x] = &MapV{obj: &MapObj{index: map[string]int{}, kt: mt.Key(), vt: mt.Elem()}}
	case *ssa.MakeChan:
		n := int(e.mustConst(e.eval(fr, x.Size).(*Term), "chan size"))
		fr.env[x] = &ChanV{obj: &ChanObj{cap: n}}
	case *ssa.MakeSlice:
		fr.env[x] = e.makeSlice(x.Type(), e.toIdx(e.eval(fr, x.Len), x.Len.Type()), e.toIdx(e.eval(fr, x.Cap), x.Cap.Type()), x.Pos())
	case *ssa.MapUpdate:
		m := e.eval(fr, x.Map).(*MapV)
		if m.obj == nil {
			panic(e.raise("nilmap", "assignment to entry in nil map", x.Pos()))
		}
		e.raceAccessMap(m.obj, true, x.Pos())
		e.mapSet(m.obj, e.eval(fr, x.Key), e.eval(fr, x.Value))
	case *ssa.Next:
		fr.env[x] = e.next(fr, x)
	case *ssa.Range:
		fr.env[x] = e.rangeInit(fr, x)
	case *ssa.Slice:
		fr.env[x] = e.sliceOp(fr, x)
	case *ssa.SliceToArrayPointer:
		s := e.eval(fr, x.X).(*Slice)
		at := x.Type().(*types.Pointer).Elem().Underlying().(*types.Array)
		n := uint64(at.Len())
		e.require(e.tt.Bin(OpUle, e.c64(n), s.len), "slice", "cannot convert slice to array pointer: length too short", x.Pos())
		if s.nilS {
			fr.env[x] = &Pointer{}
		} else if s.bobj != nil {
			fr.env[x] = &Pointer{bobj: s.bobj, idx: s.off}
		} else {
			// view: build an aggregate sharing the cells
			off := int(e.mustConst(s.off, "offset"))
			agg := &Agg{typ: at, cells: s.agg.cells[off : off+int(n)]}
			fr.env[x] = &Pointer{cell: &Cell{v: agg}}
		}
	case *ssa.Store:
		e.store(e.eval(fr, x.Addr).(*Pointer), e.eval(fr, x.Val), x.Val.Type(), x.Pos())
	case *ssa.TypeAssert:
		fr.env[x] = e.typeAssert(fr, x)
	case *ssa.Go:
		e.goStmt(fr, x)
	case *ssa.Send:
		e.chanSend(fr, x)
	case *ssa.Select:
		fr.env[x] = e.selectStmt(fr, x)
	default:
		panic(e.unsupported(fmt.Sprintf("instruction %T", in)))
	}
}

func (e *Engine) load(p *Pointer, t types.Type, pos token.Pos) Value {
	if p.IsNil() {
		panic(e.raise("nil", "invalid memory address or nil pointer dereference", pos))
	}
	if p.cell != nil {
		e.memEvent(p.cell, false, pos)
		return e.loadCell(p.cell)
	}
	// byte pointer
	e.raceAccessBytes(p.bobj, false, pos)
	if t == nil {
		return e.tt.Select(p.bobj.arr, p.idx)
	}
	if at, ok := t.Underlying().(*types.Array); ok {
		n := int(at.Len())
		a := &Array{elems: make([]Value, n)}
		for i := 0; i < n; i++ {
			a.elems[i] = e.tt.Select(p.bobj.arr, e.tt.Bin(OpAdd, p.idx, e.c64(uint64(i))))
		}
		return a
	}
	return e.tt.Select(p.bobj.arr, p.idx)
}

func (e *Engine) store(p *Pointer, v Value, t types.Type, pos token.Pos) {
	if p.IsNil() {
		panic(e.raise("nil", "invalid memory address or nil pointer dereference", pos))
	}
	if p.cell != nil {
		e.memEvent(p.cell, true, pos)
		e.storeCell(p.cell, v)
		return
	}
	e.raceAccessBytes(p.bobj, true, pos)
	if a, ok := v.(*Array); ok {
		for i, el := range a.elems {
			p.bobj.arr = e.tt.Store(p.bobj.arr, e.tt.Bin(OpAdd, p.idx, e.c64(uint64(i))), el.(*Term))
		}
		return
	}
	p.bobj.arr = e.tt.Store(p.bobj.arr, p.idx, v.(*Term))
}

func (e *Engine) unop(fr *frame, x *ssa.UnOp) Value {
	v := e.eval(fr, x.X)
	switch x.Op {
	case token.MUL:
		return e.load(v.(*Pointer), x.Type(), x.Pos())
	case token.NOT:
		return e.tt.Not(v.(*Term))
	case token.SUB:
		if f, ok := v.(FloatV); ok {
			return FloatV{-f.f}
		}
		return e.tt.Neg(v.(*Term))
	case token.XOR:
		return e.tt.BNot(v.(*Term))
	case token.ARROW:
		return e.chanRecv(fr, x, v.(*ChanV))
	}
	panic(e.unsupported("unop " + x.Op.String()))
}

func (e *Engine) shiftAmount(y *Term, ty types.Type, w int) (amt *Term, over *Term) {
	// returns amount at width w and the condition amount >= w
	if y.w == w {
		return y, e.tt.Bin(OpUle, e.tt.Const(w, uint64(w)), y)
	}
	if y.w > w {
		over = e.tt.Bin(OpUle, e.tt.Const(y.w, uint64(w)), y)
		return e.tt.Extract(y, w-1, 0), over
	}
	amt = e.tt.ZExt(y, w)
	if w > 255 || (uint64(1)<<uint(y.w))-1 < uint64(w) {
		return amt, e.tt.False
	}
	return amt, e.tt.Bin(OpUle, e.tt.Const(w, uint64(w)), amt)
}

func (e *Engine) binop(op token.Token, a, b Value, ta, tb types.Type, pos token.Pos) Value {
	switch x := a.(type) {
	case *Term:
		y, ok := b.(*Term)
		if !ok {
			break
		}
		if x.kind == SBool {
			switch op {
			case token.EQL:
				return e.tt.Eq(x, y)
			case token.NEQ:
				return e.tt.Not(e.tt.Eq(x, y))
			case token.AND, token.LAND:
				return e.tt.And(x, y)
			case token.OR, token.LOR:
				return e.tt.Or(x, y)
			}
			panic(e.unsupported("bool binop " + op.String()))
		}
		_, signed, _ := intWidth(ta)
		switch op {
		case token.ADD:
			return e.tt.Bin(OpAdd, x, y)
		case token.SUB:
			return e.tt.Bin(OpSub, x, y)
		case token.MUL:
			return e.tt.Bin(OpMul, x, y)
		case token.QUO, token.REM:
			e.require(e.tt.Not(e.tt.Eq(y, e.tt.Const(y.w, 0))), "divzero", "integer divide by zero", pos)
			switch {
			case op == token.QUO && signed:
				return e.tt.Bin(OpSDiv, x, y)
			case op == token.QUO:
				return e.tt.Bin(OpUDiv, x, y)
			case signed:
				return e.tt.Bin(OpSRem, x, y)
			default:
				return e.tt.Bin(OpURem, x, y)
			}
		case token.AND:
			return e.tt.Bin(OpBAnd, x, y)
		case token.OR:
			return e.tt.Bin(OpBOr, x, y)
		case token.XOR:
			return e.tt.Bin(OpBXor, x, y)
		case token.AND_NOT:
			return e.tt.Bin(OpBAnd, x, e.tt.BNot(y))
		case token.SHL, token.SHR:
			_, ysigned, _ := intWidth(tb)
			if ysigned {
				e.require(e.tt.Bin(OpSle, e.tt.Const(y.w, 0), y), "shift", "negative shift amount", pos)
			}
			amt, over := e.shiftAmount(y, tb, x.w)
			var sh, ov *Term
			switch {
			case op == token.SHL:
				sh, ov = e.tt.Bin(OpShl, x, amt), e.tt.Const(x.w, 0)
			case signed:
				sh = e.tt.Bin(OpAShr, x, amt)
				ov = e.tt.Bin(OpAShr, x, e.tt.Const(x.w, uint64(x.w-1)))
			default:
				sh, ov = e.tt.Bin(OpLShr, x, amt), e.tt.Const(x.w, 0)
			}
			return e.tt.Ite(over, ov, sh)
		case token.EQL:
			return e.tt.Eq(x, y)
		case token.NEQ:
			return e.tt.Not(e.tt.Eq(x, y))
		case token.LSS:
			if signed {
				return e.tt.Bin(OpSlt, x, y)
			}
			return e.tt.Bin(OpUlt, x, y)
		case token.LEQ:
			if signed {
				return e.tt.Bin(OpSle, x, y)
			}
			return e.tt.Bin(OpUle, x, y)
		case token.GTR:
			if signed {
				return e.tt.Bin(OpSlt, y, x)
			}
			return e.tt.Bin(OpUlt, y, x)
		case token.GEQ:
			if signed {
				return e.tt.Bin(OpSle, y, x)
			}
			return e.tt.Bin(OpUle, y, x)
		}
	case FloatV:
		y := b.(FloatV)
		switch op {
		case token.ADD:
			return FloatV{x.f + y.f}
		case token.SUB:
			return FloatV{x.f - y.f}
		case token.MUL:
			return FloatV{x.f * y.f}
		case token.QUO:
			return FloatV{x.f / y.f}
		case token.EQL:
			return e.tt.Bool(x.f == y.f)
		case token.NEQ:
			return e.tt.Bool(x.f != y.f)
		case token.LSS:
			return e.tt.Bool(x.f < y.f)
		case token.LEQ:
			return e.tt.Bool(x.f <= y.f)
		case token.GTR:
			return e.tt.Bool(x.f > y.f)
		case token.GEQ:
			return e.tt.Bool(x.f >= y.f)
		}
	case *StringV:
		y := b.(*StringV)
		switch op {
		case token.ADD:
			return e.strConcat(x, y)
		case token.EQL:
			return e.strEq(x, y)
		case token.NEQ:
			return e.tt.Not(e.strEq(x, y))
		case token.LSS, token.LEQ, token.GTR, token.GEQ:
			sa, ok1 := e.goString(x)
			sb, ok2 := e.goString(y)
			if ok1 && ok2 {
				switch op {
				case token.LSS:
					return e.tt.Bool(sa < sb)
				case token.LEQ:
					return e.tt.Bool(sa <= sb)
				case token.GTR:
					return e.tt.Bool(sa > sb)
				default:
					return e.tt.Bool(sa >= sb)
				}
			}
			panic(e.unsupported("ordered comparison of symbolic strings"))
		}
	}
	switch op {
	case token.EQL:
		return e.valEq(a, b, ta)
	case token.NEQ:
		return e.tt.Not(e.valEq(a, b, ta))
	}
	panic(e.unsupported(fmt.Sprintf("binop %s on %T", op, a)))
}

func (e *Engine) convert(v Value, from, to types.Type, pos token.Pos) Value {
	fu, tu := from.Underlying(), to.Underlying()
	if fw, fsigned, ok := intWidth(fu); ok {
		x := v.(*Term)
		if tw, _, ok := intWidth(tu); ok {
			switch {
			case tw == fw:
				return x
			case tw < fw:
				return e.tt.Extract(x, tw-1, 0)
			case fsigned:
				return e.tt.SExt(x, tw)
			default:
				return e.tt.ZExt(x, tw)
			}
		}
		if isStringType(tu) {
			if x.op != OpConst {
				// ASCII assumption for symbolic configuration bytes (DESIGN 2.5)
				e.doAssume(e.tt.Bin(OpUlt, x, e.tt.Const(x.w, 0x80)), "ascii-rune-to-string")
				arr := e.tt.Store(e.tt.ArrConst(nil), e.c64(0), e.tt.Extract(x, 7, 0))
				return &StringV{arr: arr, off: e.c64(0), len: e.c64(1)}
			}
			return e.concStr(string(rune(x.lo)))
		}
		if isFloatType(tu) {
			if x.op != OpConst {
				// opaque: durations etc. only flow into logging
				return FloatV{0}
			}
			if fsigned {
				return FloatV{float64(int64(x.lo))}
			}
			return FloatV{float64(x.lo)}
		}
	}
	if f, ok := v.(FloatV); ok {
		if tw, signed, ok := intWidth(tu); ok {
			if signed {
				return e.tt.Const(tw, uint64(int64(f.f)))
			}
			return e.tt.Const(tw, uint64(f.f))
		}
		if isFloatType(tu) {
			return f
		}
	}
	if isStringType(fu) {
		if ts, ok := tu.(*types.Slice); ok {
			if isByteType(ts.Elem()) {
				return e.stringToBytes(v.(*StringV))
			}
			if s, ok := e.goString(v); ok {
				// []rune
				rs := []rune(s)
				agg := e.newAgg(ts.Elem(), len(rs))
				for i, r := range rs {
					agg.cells[i].v = e.tt.Const(32, uint64(r))
				}
				n := e.c64(uint64(len(rs)))
				return &Slice{agg: agg, off: e.c64(0), len: n, cap: n}
			}
		}
		if isStringType(tu) {
			return v
		}
	}
	if fs, ok := fu.(*types.Slice); ok {
		if isStringType(tu) && isByteType(fs.Elem()) {
			return e.bytesToString(v.(*Slice))
		}
		if _, ok := tu.(*types.Slice); ok {
			return v
		}
	}
	if _, ok := fu.(*types.Pointer); ok {
		return v
	}
	if b, ok := fu.(*types.Basic); ok && b.Kind() == types.UnsafePointer {
		return v
	}
	panic(e.unsupported(fmt.Sprintf("convert %s -> %s", from, to)))
}

func (e *Engine) makeSlice(t types.Type, ln, cp *Term, pos token.Pos) *Slice {
	st := t.Underlying().(*types.Slice)
	e.require(e.tt.And(e.tt.Bin(OpSle, e.c64(0), ln), e.tt.Bin(OpSle, ln, cp)), "makeslice", "makeslice: len out of range", pos)
	e.allocCheck(cp)
	if isByteType(st.Elem()) {
		return &Slice{bobj: e.newByteObj(e.tt.ArrConst(nil)), off: e.c64(0), len: ln, cap: cp}
	}
	c := int(e.mustConst(cp, "make cap"))
	l := int(e.mustConst(ln, "make len"))
	if c > 1<<16 {
		panic(pathEnd{"budget", "huge make"})
	}
	return &Slice{agg: e.newAgg(st.Elem(), c), off: e.c64(0), len: e.c64(uint64(l)), cap: e.c64(uint64(c))}
}

func (e *Engine) inBounds(i, n *Term) *Term {
	// 0 <= i < n for signed 64-bit i and non-negative n: unsigned compare
	return e.tt.Bin(OpUlt, i, n)
}

func (e *Engine) toIdx(v Value, t types.Type) *Term {
	x := v.(*Term)
	if x.w == 64 {
		return x
	}
	_, signed, _ := intWidth(t)
	if signed {
		return e.tt.SExt(x, 64)
	}
	return e.tt.ZExt(x, 64)
}

func (e *Engine) index(fr *frame, x *ssa.Index) Value {
	base := e.eval(fr, x.X)
	i := e.toIdx(e.eval(fr, x.Index), x.Index.Type())
	switch b := base.(type) {
	case *StringV:
		e.require(e.inBounds(i, e.strLen(b)), "index", "index out of range", x.Pos())
		return e.strByte(b, i)
	case *Array:
		n := e.c64(uint64(len(b.elems)))
		e.require(e.inBounds(i, n), "index", "index out of range", x.Pos())
		if i.op == OpConst {
			return b.elems[i.lo]
		}
		// symbolic index over scalars: ite chain
		if t0, ok := b.elems[0].(*Term); ok {
			res := t0
			for k := 1; k < len(b.elems); k++ {
				res = e.tt.Ite(e.tt.Eq(i, e.c64(uint64(k))), b.elems[k].(*Term), res)
			}
			return res
		}
		return b.elems[e.concretize(i)]
	}
	panic(e.unsupported(fmt.Sprintf("Index on %T", base)))
}

func (e *Engine) indexAddr(fr *frame, x *ssa.IndexAddr) Value {
	base := e.eval(fr, x.X)
	i := e.toIdx(e.eval(fr, x.Index), x.Index.Type())
	switch b := base.(type) {
	case *Slice:
		e.require(e.inBounds(i, b.len), "index", "index out of range", x.Pos())
		if b.bobj != nil {
			return &Pointer{bobj: b.bobj, idx: e.tt.Bin(OpAdd, b.off, i)}
		}
		k := int(e.concretize(i))
		return &Pointer{cell: e.sliceElemCell(b, k)}
	case *Pointer:
		if b.IsNil() {
			panic(e.raise("nil", "invalid memory address or nil pointer dereference", x.Pos()))
		}
		if b.bobj != nil {
			at := x.X.Type().Underlying().(*types.Pointer).Elem().Underlying().(*types.Array)
			e.require(e.inBounds(i, e.c64(uint64(at.Len()))), "index", "index out of range", x.Pos())
			return &Pointer{bobj: b.bobj, idx: e.tt.Bin(OpAdd, b.idx, i)}
		}
		agg := b.cell.v.(*Agg)
		e.require(e.inBounds(i, e.c64(uint64(len(agg.cells)))), "index", "index out of range", x.Pos())
		k := int(e.concretize(i))
		return &Pointer{cell: agg.cells[k]}
	}
	panic(e.unsupported(fmt.Sprintf("IndexAddr on %T", base)))
}

func (e *Engine) sliceOp(fr *frame, x *ssa.Slice) Value {
	base := e.eval(fr, x.X)
	var lo, hi, mx *Term
	if x.Low != nil {
		lo = e.toIdx(e.eval(fr, x.Low), x.Low.Type())
	}
	if x.High != nil {
		hi = e.toIdx(e.eval(fr, x.High), x.High.Type())
	}
	if x.Max != nil {
		mx = e.toIdx(e.eval(fr, x.Max), x.Max.Type())
	}
	chk := func(lo, hi, mx, capv *Term) {
		// 0 <= lo <= hi <= mx <= cap  (unsigned compares catch negatives)
		c := e.tt.And(e.tt.Bin(OpUle, lo, hi), e.tt.And(e.tt.Bin(OpUle, hi, mx), e.tt.Bin(OpUle, mx, capv)))
		e.require(c, "slice", "slice bounds out of range", x.Pos())
	}
	switch b := base.(type) {
	case *StringV:
		n := e.strLen(b)
		if lo == nil {
			lo = e.c64(0)
		}
		if hi == nil {
			hi = n
		}
		chk(lo, hi, n, n)
		if b.conc && lo.op == OpConst && hi.op == OpConst {
			return e.concStr(b.s[lo.lo:hi.lo])
		}
		arr, off, _ := e.symStr(b)
		return e.normStr(&StringV{arr: arr, off: e.tt.Bin(OpAdd, off, lo), len: e.tt.Bin(OpSub, hi, lo)})
	case *Slice:
		if lo == nil {
			lo = e.c64(0)
		}
		if hi == nil {
			hi = b.len
		}
		if mx == nil {
			mx = b.cap
		}
		chk(lo, hi, mx, b.cap)
		if b.nilS {
			return b
		}
		ns := &Slice{agg: b.agg, bobj: b.bobj, off: e.tt.Bin(OpAdd, b.off, lo), len: e.tt.Bin(OpSub, hi, lo), cap: e.tt.Bin(OpSub, mx, lo)}
		if ns.agg != nil {
			e.mustConst(ns.off, "slice offset")
			e.mustConst(ns.len, "slice length")
			e.mustConst(ns.cap, "slice cap")
			ns.off, ns.len, ns.cap = e.pcConst(ns.off), e.pcConst(ns.len), e.pcConst(ns.cap)
		}
		return ns
	case *Pointer:
		if b.IsNil() {
			panic(e.raise("nil", "invalid memory address or nil pointer dereference", x.Pos()))
		}
		at := x.X.Type().Underlying().(*types.Pointer).Elem().Underlying().(*types.Array)
		n := e.c64(uint64(at.Len()))
		if lo == nil {
			lo = e.c64(0)
		}
		if hi == nil {
			hi = n
		}
		if mx == nil {
			mx = n
		}
		chk(lo, hi, mx, n)
		if b.bobj != nil {
			return &Slice{bobj: b.bobj, off: e.tt.Bin(OpAdd, b.idx, lo), len: e.tt.Bin(OpSub, hi, lo), cap: e.tt.Bin(OpSub, mx, lo)}
		}
		l, h, m := e.mustConst(lo, "lo"), e.mustConst(hi, "hi"), e.mustConst(mx, "max")
		return &Slice{agg: b.cell.v.(*Agg), off: e.c64(l), len: e.c64(h - l), cap: e.c64(m - l)}
	}
	panic(e.unsupported(fmt.Sprintf("Slice on %T", base)))
}

// pcConst returns the constant a term was concretised to on this path.
func (e *Engine) pcConst(t *Term) *Term {
	if t.op == OpConst {
		return t
	}
	return e.c64(e.concretize(t))
}

func (e *Engine) typeAssert(fr *frame, x *ssa.TypeAssert) Value {
	v := e.eval(fr, x.X).(*Iface)
	ok := false
	var res Value
	if v.typ != nil {
		if it, isI := x.AssertedType.Underlying().(*types.Interface); isI {
			ok = types.Implements(v.typ, it)
			if !ok {
				// pointer receiver method sets
				ok = types.AssertableTo(it, v.typ) && types.Implements(v.typ, it)
			}
			res = v
		} else {
			ok = types.Identical(v.typ, x.AssertedType)
			res = v.val
		}
	}
	if x.CommaOk {
		if !ok {
			if _, isI := x.AssertedType.Underlying().(*types.Interface); isI {
				res = &Iface{}
			} else {
				res = e.zero(x.AssertedType)
			}
		}
		return &Tuple{vals: []Value{res, e.tt.Bool(ok)}}
	}
	if !ok {
		dyn := "nil"
		if v.typ != nil {
			dyn = v.typ.String()
		}
		panic(e.raise("typeassert", fmt.Sprintf("interface conversion: interface is %s, not %s", dyn, x.AssertedType), x.Pos()))
	}
	return res
}

// ---------- maps ----------

func (e *Engine) mapFind(m *MapObj, k Value) int {
	if ks, ok := e.keyString(k); ok {
		allConc := true
		if i, ok := m.index[ks]; ok && !m.dead[i] {
			return i
		}
		for i := range m.keys {
			if m.dead[i] {
				continue
			}
			if _, ok := e.keyString(m.keys[i]); !ok {
				allConc = false
				break
			}
		}
		if allConc {
			return -1
		}
	}
	for i := range m.keys {
		if m.dead[i] {
			continue
		}
		c := e.valEq(k, m.keys[i], m.kt)
		if e.branch(c) {
			return i
		}
	}
	return -1
}

func (e *Engine) mapSet(m *MapObj, k, v Value) {
	i := e.mapFind(m, k)
	if i >= 0 {
		m.vals[i] = v
		return
	}
	m.keys = append(m.keys, k)
	m.vals = append(m.vals, v)
	m.dead = append(m.dead, false)
	if ks, ok := e.keyString(k); ok {
		m.index[ks] = len(m.keys) - 1
	}
}

func (e *Engine) mapDelete(m *MapObj, k Value) {
	i := e.mapFind(m, k)
	if i >= 0 {
		m.dead[i] = true
		if ks, ok := e.keyString(m.keys[i]); ok {
			delete(m.index, ks)
		}
	}
}

func (e *Engine) mapLen(m *MapObj) int {
	n := 0
	for i := range m.keys {
		if !m.dead[i] {
			n++
		}
	}
	return n
}

func (e *Engine) lookup(fr *frame, x *ssa.Lookup) Value {
	base := e.eval(fr, x.X)
	switch b := base.(type) {
	case *MapV:
		vt := x.X.Type().Underlying().(*types.Map).Elem()
		k := e.eval(fr, x.Index)
		i := -1
		if b.obj != nil {
			e.raceAccessMap(b.obj, false, x.Pos())
			i = e.mapFind(b.obj, k)
		}
		var v Value
		if i >= 0 {
			v = b.obj.vals[i]
		} else {
			v = e.zero(vt)
		}
		if x.CommaOk {
			return &Tuple{vals: []Value{v, e.tt.Bool(i >= 0)}}
		}
		return v
	}
	panic(e.unsupported(fmt.Sprintf("Lookup on %T", base)))
}

func (e *Engine) rangeInit(fr *frame, x *ssa.Range) Value {
	switch b := e.eval(fr, x.X).(type) {
	case *MapV:
		it := &MapIter{}
		if b.obj != nil {
			e.raceAccessMap(b.obj, false, x.Pos())
			it.m = b.obj
			for i := range b.obj.keys {
				if !b.obj.dead[i] {
					it.keys = append(it.keys, i)
				}
			}
			if e.cfg.MapReverse {
				for i, j := 0, len(it.keys)-1; i < j; i, j = i+1, j-1 {
					it.keys[i], it.keys[j] = it.keys[j], it.keys[i]
				}
			}
		}
		return it
	case *StringV:
		return &MapIter{str: b}
	}
	panic(e.unsupported("range over unsupported type"))
}

func (e *Engine) next(fr *frame, x *ssa.Next) Value {
	it := e.eval(fr, x.Iter).(*MapIter)
	if x.IsString {
		s := e.normStr(it.str)
		n := e.mustConst(e.strLen(s), "string length in range")
		if uint64(it.spos) >= n {
			return &Tuple{vals: []Value{e.tt.False, e.c64(0), e.tt.Const(32, 0)}}
		}
		pos := it.spos
		if s.conc {
			r, sz := utf8.DecodeRuneInString(s.s[pos:])
			it.spos += sz
			return &Tuple{vals: []Value{e.tt.True, e.c64(uint64(pos)), e.tt.Const(32, uint64(r))}}
		}
		b := e.strByte(s, e.c64(uint64(pos)))
		if b.op == OpConst && b.lo >= 0x80 {
			panic(e.unsupported("non-ASCII byte in partially symbolic string range"))
		}
		if b.op != OpConst {
			// ASCII assumption for symbolic configuration bytes (stated in DESIGN §2.5)
			e.doAssume(e.tt.Bin(OpUlt, b, e.tt.Const(8, 0x80)), "ascii-range-string")
		}
		it.spos++
		return &Tuple{vals: []Value{e.tt.True, e.c64(uint64(pos)), e.tt.ZExt(b, 32)}}
	}
	mt := x.Iter.(*ssa.Range).X.Type().Underlying().(*types.Map)
	for it.pos < len(it.keys) {
		i := it.keys[it.pos]
		it.pos++
		if it.m.dead[i] {
			continue
		}
		return &Tuple{vals: []Value{e.tt.True, it.m.keys[i], it.m.vals[i]}}
	}
	return &Tuple{vals: []Value{e.tt.False, e.zero(mt.Key()), e.zero(mt.Elem())}}
}

// allocCheck: with an allocation limit set by the harness (zzvrf.AllocLimit),
// every allocation whose element count is symbolic must be provably within
// the limit - "never allocates in proportion to a length claimed by the data".
func (e *Engine) allocCheck(n *Term) {
	if e.allocLimit == 0 || n.op == OpConst || e.spec || e.sol == nil {
		return
	}
	const id = "allocation-bounded-by-input-size"
	cond := e.tt.Bin(OpUle, n, e.c64(uint64(e.allocLimit)))
	// prefer a moderate counterexample (replayable natively without exhausting memory)
	moderate := e.tt.And(e.tt.Not(cond), e.tt.Bin(OpUle, n, e.c64(1<<22)))
	e.checkDeadline()
	if r, _ := e.sol.Check(e.pc, moderate, nil); r == Sat {
		st := e.stat(id)
		st.Checked++
		st.Nontrivial++
		st.Violated++
		e.reportViolation(id, "assert", "", "", moderate)
		if e.check(cond) != Sat {
			panic(pathEnd{"assertstop", id})
		}
		e.addPC(cond)
		return
	}
	e.doAssert(cond, id)
}

// curPos: source position of the instruction being executed (best effort).
func (e *Engine) curPos() token.Pos { return e.pos }
