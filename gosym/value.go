package main

// Engine values and object memory.

import (
	"fmt"
	"go/types"
	"strings"

	"golang.org/x/tools/go/ssa"
)

type Value interface{}

// Scalars (bool, ints) are *Term.

type FloatV struct{ f float64 }

// Cell is an addressable location. Aggregates (struct, array) hold *Agg.
type Cell struct {
	v Value
}

type Agg struct {
	cells []*Cell
	typ   types.Type // struct or array type (may be nil for slice backing stores)
}

// ByteObj is a byte buffer backed by an SMT array term.
type ByteObj struct {
	arr *Term
	id  int
}

type Pointer struct {
	cell *Cell    // cell pointer
	bobj *ByteObj // byte pointer (into bobj at idx)
	idx  *Term
	fn   bool // unused
}

func (p *Pointer) IsNil() bool { return p == nil || (p.cell == nil && p.bobj == nil) }

type Slice struct {
	agg  *Agg
	bobj *ByteObj
	off  *Term // 64-bit
	len  *Term
	cap  *Term
	nilS bool
}

type StringV struct {
	conc bool
	s    string
	arr  *Term
	off  *Term
	len  *Term
}

type Struct struct{ fields []Value }
type Array struct{ elems []Value }
type Tuple struct{ vals []Value }

type Iface struct {
	typ types.Type // dynamic type; nil => nil interface
	val Value
}

type MapObj struct {
	keys  []Value
	vals  []Value
	dead  []bool
	index map[string]int // canonical concrete keys
	kt    types.Type
	vt    types.Type
	hdr   *Cell // stands for the map's internal structure in the race log (any read / any write)
}

type MapV struct{ obj *MapObj }

type Closure struct {
	fn  *ssa.Function
	env []Value
}

type ChanObj struct {
	closed bool
	buf    []Value
	cap    int
}
type ChanV struct{ obj *ChanObj }

type MapIter struct {
	m    *MapObj
	pos  int
	str  *StringV
	spos int
	keys []int
}

// ---------------------------------------------------------------------

func intWidth(t types.Type) (w int, signed bool, ok bool) {
	b, isB := t.Underlying().(*types.Basic)
	if !isB {
		return 0, false, false
	}
	switch b.Kind() {
	case types.Bool, types.UntypedBool:
		return 0, false, false
	case types.Int8:
		return 8, true, true
	case types.Int16:
		return 16, true, true
	case types.Int32, types.UntypedRune:
		return 32, true, true
	case types.Int64, types.Int, types.UntypedInt:
		return 64, true, true
	case types.Uint8:
		return 8, false, true
	case types.Uint16:
		return 16, false, true
	case types.Uint32:
		return 32, false, true
	case types.Uint64, types.Uint, types.Uintptr:
		return 64, false, true
	}
	return 0, false, false
}

func isByteType(t types.Type) bool {
	b, ok := t.Underlying().(*types.Basic)
	return ok && b.Kind() == types.Uint8
}

func isStringType(t types.Type) bool {
	b, ok := t.Underlying().(*types.Basic)
	return ok && (b.Kind() == types.String || b.Kind() == types.UntypedString)
}

func isFloatType(t types.Type) bool {
	b, ok := t.Underlying().(*types.Basic)
	return ok && (b.Info()&types.IsFloat != 0)
}

func isBoolType(t types.Type) bool {
	b, ok := t.Underlying().(*types.Basic)
	return ok && (b.Info()&types.IsBoolean != 0)
}

func (e *Engine) concStr(s string) *StringV { return &StringV{conc: true, s: s} }

func (e *Engine) zero(t types.Type) Value {
	switch u := t.Underlying().(type) {
	case *types.Basic:
		if w, _, ok := intWidth(u); ok {
			return e.tt.Const(w, 0)
		}
		switch {
		case u.Info()&types.IsBoolean != 0:
			return e.tt.False
		case u.Info()&types.IsString != 0:
			return e.concStr("")
		case u.Info()&types.IsFloat != 0:
			return FloatV{0}
		case u.Kind() == types.UnsafePointer:
			return &Pointer{}
		case u.Kind() == types.UntypedNil:
			return nil
		}
		panic(e.unsupported("zero of basic type " + u.String()))
	case *types.Pointer:
		return &Pointer{}
	case *types.Slice:
		return &Slice{nilS: true, off: e.c64(0), len: e.c64(0), cap: e.c64(0)}
	case *types.Map:
		return &MapV{}
	case *types.Chan:
		return &ChanV{}
	case *types.Signature:
		return (*Closure)(nil)
	case *types.Interface:
		return &Iface{}
	case *types.Struct:
		s := &Struct{fields: make([]Value, u.NumFields())}
		for i := range s.fields {
			s.fields[i] = e.zero(u.Field(i).Type())
		}
		return s
	case *types.Array:
		a := &Array{elems: make([]Value, int(u.Len()))}
		for i := range a.elems {
			a.elems[i] = e.zero(u.Elem())
		}
		return a
	case *types.Tuple:
		tp := &Tuple{vals: make([]Value, u.Len())}
		for i := range tp.vals {
			tp.vals[i] = e.zero(u.At(i).Type())
		}
		return tp
	}
	panic(e.unsupported("zero of type " + t.String()))
}

func (e *Engine) c64(v uint64) *Term { return e.tt.Const(64, v) }

// newCell allocates a memory cell holding the zero value of t.
func (e *Engine) newCell(t types.Type) *Cell {
	switch u := t.Underlying().(type) {
	case *types.Struct:
		a := &Agg{typ: t, cells: make([]*Cell, u.NumFields())}
		for i := range a.cells {
			a.cells[i] = e.newCell(u.Field(i).Type())
		}
		return &Cell{v: a}
	case *types.Array:
		a := &Agg{typ: t, cells: make([]*Cell, int(u.Len()))}
		for i := range a.cells {
			a.cells[i] = e.newCell(u.Elem())
		}
		return &Cell{v: a}
	}
	return &Cell{v: e.zero(t)}
}

func (e *Engine) newAgg(elem types.Type, n int) *Agg {
	a := &Agg{cells: make([]*Cell, n)}
	for i := range a.cells {
		a.cells[i] = e.newCell(elem)
	}
	return a
}

func (e *Engine) loadCell(c *Cell) Value {
	if a, ok := c.v.(*Agg); ok {
		return e.snapshot(a)
	}
	return c.v
}

func (e *Engine) snapshot(a *Agg) Value {
	vals := make([]Value, len(a.cells))
	for i, c := range a.cells {
		vals[i] = e.loadCell(c)
	}
	if a.typ != nil {
		if _, ok := a.typ.Underlying().(*types.Array); ok {
			return &Array{elems: vals}
		}
	}
	return &Struct{fields: vals}
}

func (e *Engine) storeCell(c *Cell, v Value) {
	if a, ok := c.v.(*Agg); ok {
		switch x := v.(type) {
		case *Struct:
			for i, f := range x.fields {
				e.storeCell(a.cells[i], f)
			}
		case *Array:
			for i, f := range x.elems {
				e.storeCell(a.cells[i], f)
			}
		default:
			panic(e.unsupported(fmt.Sprintf("store of %T into aggregate", v)))
		}
		return
	}
	c.v = v
}

func (e *Engine) newByteObj(arr *Term) *ByteObj {
	e.nobj++
	return &ByteObj{arr: arr, id: e.nobj}
}

// ---------- slice element access (both backings) ----------

func (e *Engine) sliceElemCell(s *Slice, i int) *Cell {
	off := int(e.mustConst(s.off, "slice offset"))
	return s.agg.cells[off+i]
}

func (e *Engine) sliceLoad(s *Slice, i *Term) Value {
	if s.bobj != nil {
		e.raceAccessBytes(s.bobj, false, e.curPos())
		return e.tt.Select(s.bobj.arr, e.tt.Bin(OpAdd, s.off, i))
	}
	k := int(e.concretize(i))
	c := e.sliceElemCell(s, k)
	if e.race != nil {
		e.raceAccessCell(c, false, e.curPos(), false)
	}
	return e.loadCell(c)
}

func (e *Engine) sliceStore(s *Slice, i *Term, v Value) {
	if s.bobj != nil {
		e.raceAccessBytes(s.bobj, true, e.curPos())
		s.bobj.arr = e.tt.Store(s.bobj.arr, e.tt.Bin(OpAdd, s.off, i), v.(*Term))
		return
	}
	k := int(e.concretize(i))
	c := e.sliceElemCell(s, k)
	if e.race != nil {
		e.raceAccessCell(c, true, e.curPos(), false)
	}
	e.storeCell(c, v)
}

func (e *Engine) mustConst(t *Term, what string) uint64 {
	if t.op != OpConst {
		return e.concretize(t)
	}
	return t.lo
}

// ---------- strings ----------

func (e *Engine) strLen(s *StringV) *Term {
	if s.conc {
		return e.c64(uint64(len(s.s)))
	}
	return s.len
}

func (e *Engine) strByte(s *StringV, i *Term) *Term {
	if s.conc {
		if i.op == OpConst {
			return e.tt.Const(8, uint64(s.s[i.lo]))
		}
		return e.tt.Select(e.tt.ArrConst([]byte(s.s)), i)
	}
	return e.tt.Select(s.arr, e.tt.Bin(OpAdd, s.off, i))
}

// normalise a symbolic string whose bytes and length are all concrete
func (e *Engine) normStr(s *StringV) *StringV {
	if s.conc {
		return s
	}
	if s.len.op != OpConst || s.off.op != OpConst {
		return s
	}
	n := int(s.len.lo)
	if n > 1<<20 {
		return s
	}
	buf := make([]byte, n)
	for i := 0; i < n; i++ {
		b := e.tt.Select(s.arr, e.c64(s.off.lo+uint64(i)))
		if b.op != OpConst {
			return s
		}
		buf[i] = byte(b.lo)
	}
	return e.concStr(string(buf))
}

func (e *Engine) symStr(s *StringV) (arr, off, ln *Term) {
	if s.conc {
		return e.tt.ArrConst([]byte(s.s)), e.c64(0), e.c64(uint64(len(s.s)))
	}
	return s.arr, s.off, s.len
}

// strEq builds the equality term of two strings. Lengths must be concrete
// or one side concrete; otherwise the length is concretised.
func (e *Engine) strEq(a, b *StringV) *Term {
	a, b = e.normStr(a), e.normStr(b)
	if a.conc && b.conc {
		return e.tt.Bool(a.s == b.s)
	}
	la, lb := e.strLen(a), e.strLen(b)
	leq := e.tt.Eq(la, lb)
	if leq == e.tt.False {
		return e.tt.False
	}
	// need a concrete common length to expand the comparison
	var n uint64
	switch {
	case la.op == OpConst:
		n = la.lo
	case lb.op == OpConst:
		n = lb.lo
	default:
		// fork on equality of lengths, then concretise
		if !e.branch(leq) {
			return e.tt.False
		}
		n = e.concretize(la)
		leq = e.tt.True
	}
	res := leq
	for i := uint64(0); i < n; i++ {
		ix := e.c64(i)
		res = e.tt.And(res, e.tt.Eq(e.strByte(a, ix), e.strByte(b, ix)))
		if res == e.tt.False {
			break
		}
	}
	return res
}

func (e *Engine) strConcat(a, b *StringV) *StringV {
	a, b = e.normStr(a), e.normStr(b)
	if a.conc && b.conc {
		return e.concStr(a.s + b.s)
	}
	if a.conc && a.s == "" {
		return b
	}
	if b.conc && b.s == "" {
		return a
	}
	la := e.mustConst(e.strLen(a), "string length in concat")
	lb := e.mustConst(e.strLen(b), "string length in concat")
	arr := e.tt.ArrConst(nil)
	for i := uint64(0); i < la; i++ {
		arr = e.tt.Store(arr, e.c64(i), e.strByte(a, e.c64(i)))
	}
	for i := uint64(0); i < lb; i++ {
		arr = e.tt.Store(arr, e.c64(la+i), e.strByte(b, e.c64(i)))
	}
	return e.normStr(&StringV{arr: arr, off: e.c64(0), len: e.c64(la + lb)})
}

// goString returns the concrete Go string of v or ok=false.
func (e *Engine) goString(v Value) (string, bool) {
	s, ok := v.(*StringV)
	if !ok {
		return "", false
	}
	s = e.normStr(s)
	if s.conc {
		return s.s, true
	}
	return "", false
}

// bytesToString snapshots a byte slice as a string value.
func (e *Engine) bytesToString(s *Slice) *StringV {
	if s.nilS {
		return e.concStr("")
	}
	if s.bobj != nil {
		return e.normStr(&StringV{arr: s.bobj.arr, off: s.off, len: s.len})
	}
	n := int(e.mustConst(s.len, "slice length"))
	arr := e.tt.ArrConst(nil)
	for i := 0; i < n; i++ {
		arr = e.tt.Store(arr, e.c64(uint64(i)), e.sliceLoad(s, e.c64(uint64(i))).(*Term))
	}
	return e.normStr(&StringV{arr: arr, off: e.c64(0), len: e.c64(uint64(n))})
}

func (e *Engine) stringToBytes(s *StringV) *Slice {
	arr, off, ln := e.symStr(s)
	return &Slice{bobj: e.newByteObj(arr), off: off, len: ln, cap: ln}
}

func (e *Engine) bytesFromGo(b []byte) *Slice {
	n := e.c64(uint64(len(b)))
	return &Slice{bobj: e.newByteObj(e.tt.ArrConst(b)), off: e.c64(0), len: n, cap: n}
}

// goBytes returns concrete bytes of a byte slice or ok=false
func (e *Engine) goBytes(v Value) ([]byte, bool) {
	s, ok := v.(*Slice)
	if !ok {
		return nil, false
	}
	if s.nilS {
		return nil, true
	}
	if s.len.op != OpConst || s.off.op != OpConst {
		return nil, false
	}
	n := int(s.len.lo)
	out := make([]byte, n)
	for i := 0; i < n; i++ {
		b, ok := e.sliceLoad(s, e.c64(uint64(i))).(*Term)
		if !ok || b.op != OpConst {
			return nil, false
		}
		out[i] = byte(b.lo)
	}
	return out, true
}

// ---------- equality ----------

func (e *Engine) ptrEq(a, b *Pointer) *Term {
	if a.IsNil() || b.IsNil() {
		return e.tt.Bool(a.IsNil() && b.IsNil())
	}
	if a.cell != nil || b.cell != nil {
		return e.tt.Bool(a.cell == b.cell)
	}
	if a.bobj != b.bobj {
		return e.tt.False
	}
	return e.tt.Eq(a.idx, b.idx)
}

func (e *Engine) valEq(a, b Value, t types.Type) *Term {
	switch x := a.(type) {
	case *Term:
		return e.tt.Eq(x, b.(*Term))
	case FloatV:
		return e.tt.Bool(x.f == b.(FloatV).f)
	case *StringV:
		return e.strEq(x, b.(*StringV))
	case *Pointer:
		return e.ptrEq(x, b.(*Pointer))
	case *Iface:
		y := b.(*Iface)
		if x.typ == nil || y.typ == nil {
			return e.tt.Bool(x.typ == nil && y.typ == nil)
		}
		if !types.Identical(x.typ, y.typ) {
			return e.tt.False
		}
		return e.valEq(x.val, y.val, x.typ)
	case *Struct:
		y := b.(*Struct)
		res := e.tt.True
		st, _ := t.Underlying().(*types.Struct)
		for i := range x.fields {
			var ft types.Type
			if st != nil {
				ft = st.Field(i).Type()
			}
			res = e.tt.And(res, e.valEq(x.fields[i], y.fields[i], ft))
		}
		return res
	case *Array:
		y := b.(*Array)
		res := e.tt.True
		var et types.Type
		if at, ok := t.Underlying().(*types.Array); ok {
			et = at.Elem()
		}
		for i := range x.elems {
			res = e.tt.And(res, e.valEq(x.elems[i], y.elems[i], et))
		}
		return res
	case *Slice:
		y := b.(*Slice)
		if x.nilS || y.nilS {
			return e.tt.Bool(x.nilS && y.nilS)
		}
		panic(e.unsupported("slice comparison to non-nil"))
	case *MapV:
		y := b.(*MapV)
		if x.obj == nil || y.obj == nil {
			return e.tt.Bool(x.obj == nil && y.obj == nil)
		}
		return e.tt.Bool(x.obj == y.obj)
	case *ChanV:
		return e.tt.Bool(x.obj == b.(*ChanV).obj)
	case *Closure:
		y, _ := b.(*Closure)
		if x == nil || y == nil {
			return e.tt.Bool(x == nil && y == nil)
		}
		panic(e.unsupported("func comparison"))
	case nil:
		return e.tt.Bool(b == nil)
	}
	panic(e.unsupported(fmt.Sprintf("equality on %T", a)))
}

// canonical key for concrete map keys; ok=false if symbolic
func (e *Engine) keyString(v Value) (string, bool) {
	switch x := v.(type) {
	case *Term:
		if x.IsConst() {
			return fmt.Sprintf("i%d:%s", x.w, x.Big().Text(16)), true
		}
		return "", false
	case *StringV:
		if s, ok := e.goString(x); ok {
			return "s" + s, true
		}
		return "", false
	case *Struct:
		var sb strings.Builder
		sb.WriteString("{")
		for _, f := range x.fields {
			k, ok := e.keyString(f)
			if !ok {
				return "", false
			}
			fmt.Fprintf(&sb, "%d:%s,", len(k), k)
		}
		return sb.String(), true
	case *Array:
		var sb strings.Builder
		sb.WriteString("[")
		for _, f := range x.elems {
			k, ok := e.keyString(f)
			if !ok {
				return "", false
			}
			fmt.Fprintf(&sb, "%d:%s,", len(k), k)
		}
		return sb.String(), true
	case *Iface:
		if x.typ == nil {
			return "nil", true
		}
		k, ok := e.keyString(x.val)
		return "I" + x.typ.String() + "/" + k, ok
	case *Pointer:
		if x.IsNil() {
			return "p0", true
		}
		if x.cell != nil {
			return fmt.Sprintf("p%p", x.cell), true
		}
		return "", false
	case FloatV:
		return fmt.Sprintf("f%v", x.f), true
	}
	return "", false
}

// describe renders a value for traces and samples.
func (e *Engine) describe(v Value, depth int) string {
	if depth <= 0 {
		return "…"
	}
	switch x := v.(type) {
	case nil:
		return "nil"
	case *Term:
		return x.String()
	case FloatV:
		return fmt.Sprint(x.f)
	case *StringV:
		if s, ok := e.goString(x); ok {
			return fmt.Sprintf("%q", s)
		}
		return fmt.Sprintf("str(len=%s)", x.len)
	case *Pointer:
		if x.IsNil() {
			return "nil"
		}
		if x.cell != nil {
			return "&" + e.describe(e.loadCell(x.cell), depth-1)
		}
		return "&byte"
	case *Slice:
		if x.nilS {
			return "nil"
		}
		if b, ok := e.goBytes(x); ok {
			return fmt.Sprintf("%x", b)
		}
		return fmt.Sprintf("slice(len=%s)", x.len)
	case *Struct:
		var p []string
		for _, f := range x.fields {
			p = append(p, e.describe(f, depth-1))
		}
		return "{" + strings.Join(p, " ") + "}"
	case *Array:
		var p []string
		for _, f := range x.elems {
			p = append(p, e.describe(f, depth-1))
		}
		return "[" + strings.Join(p, " ") + "]"
	case *Iface:
		if x.typ == nil {
			return "nil"
		}
		return x.typ.String() + "(" + e.describe(x.val, depth-1) + ")"
	case *Closure:
		if x == nil {
			return "nil"
		}
		return x.fn.String()
	}
	return fmt.Sprintf("%T", v)
}
