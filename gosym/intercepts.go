package main

// Library models and the zzvrf intrinsics. Every intercept that fires is
// counted in RunResult.Stubs and listed in the evidence.

import (
	"net"
	"crypto/sha256"
	"encoding/binary"
	"encoding/hex"
	"math/big"
	"fmt"
	"go/token"
	"go/types"
	"sort"
	"strconv"
	"strings"
	"unicode"

	"golang.org/x/tools/go/ssa"
)

type interceptFn func(e *Engine, fr *frame, fn *ssa.Function, args []Value, c *ssa.CallCommon) (Value, bool)

var noopPackages = map[string]bool{
	"log/slog": true,
	"log":      true,
}

var intercepts map[string]interceptFn

func init() {
	intercepts = map[string]interceptFn{
		"strings.Contains":                 icStringsContains,
		"strings.Index":                    icStringsIndex,
		"strings.IndexByte":                icStringsIndexByte,
		"internal/bytealg.IndexByteString": icStringsIndexByte,
		"strings.Replace":                  icStringsReplace,
		"strings.ReplaceAll":               icStringsReplaceAll,
		"strings.ToLower":                  icStringsToLower,
		"strings.Join":                     icStringsJoin,
		"strings.Map":                      icConcreteOnly,
		"strings.TrimSpace":                icConcreteStr1(strings.TrimSpace),
		"strings.ToUpper":                  icConcreteStr1(strings.ToUpper),
		"strings.Split":                    icStringsSplit,
		"strings.Fields":                   icStringsFields,
		"strings.Count":                    icStrStrInt(strings.Count),
		"strings.LastIndex":                icStrStrInt(strings.LastIndex),
		"strings.Trim":                     icStrStrStr(strings.Trim),
		"strings.TrimLeft":                 icStrStrStr(strings.TrimLeft),
		"strings.TrimRight":                icStrStrStr(strings.TrimRight),
		"(*strings.Builder).WriteString":   icBuilderWriteString,
		"(*strings.Builder).WriteByte":     icBuilderWriteByte,
		"(*strings.Builder).String":        icBuilderString,
		"(*strings.Builder).Len":           icBuilderLen,
		"(*strings.Builder).Grow":          icNop,
		"bytes.Contains":                   icBytesContains,
		"bytes.Equal":                      icBytesEqual,
		"fmt.Sprintf":                      icSprintf,
		"fmt.Appendf":                      icAppendf,
		"fmt.Errorf":                       icErrorf,
		"fmt.Sprint":                       icSprint,
		"fmt.Printf":                       icNop,
		"fmt.Println":                      icNop,
		"fmt.Fprintf":                      icNop,
		"errors.Is":                        icErrorsIs,
		"time.Now":                         icZero,
		"github.com/klauspost/compress/gzhttp.Transport": icZero,
		"time.Since":                       icConstInt(1),
		"time.Sleep":                       icSleep,
		"(*sync.Mutex).Lock":               icMutexLock,
		"(*sync.Mutex).Unlock":             icMutexUnlock,
		"(*sync.Mutex).TryLock":            icMutexTryLock,
		"(net.IP).IsLoopback":              icNetIPPred(net.IP.IsLoopback),
		"(net.IP).IsLinkLocalUnicast":      icNetIPPred(net.IP.IsLinkLocalUnicast),
		"(net.IP).IsLinkLocalMulticast":    icNetIPPred(net.IP.IsLinkLocalMulticast),
		"(net.IP).IsPrivate":               icNetIPPred(net.IP.IsPrivate),
		"(net.IP).IsUnspecified":           icNetIPPred(net.IP.IsUnspecified),
		"(net.IP).IsGlobalUnicast":         icNetIPPred(net.IP.IsGlobalUnicast),
		"(net.IP).IsMulticast":             icNetIPPred(net.IP.IsMulticast),
		"net.SplitHostPort":                icNetSplitHostPort,
		"net.ParseIP":                      icNetParseIP,
		"(*sync.Map).Load":                 icSyncMapLoad,
		"(*sync.Map).Store":                icSyncMapStore,
		"(*sync.Map).LoadOrStore":          icSyncMapLoadOrStore,
		"(*sync.Map).Delete":               icSyncMapDelete,
		"(*sync.Once).Do":                  icOnceDo,
		"(*sync.WaitGroup).Add":            icWGAdd,
		"(*sync.WaitGroup).Done":           icWGDone,
		"(*sync.WaitGroup).Wait":           icWGWait,
		"sync/atomic.AddUint64":            icAtomicAdd,
		"sync/atomic.AddInt64":             icAtomicAdd,
		"sync/atomic.AddInt32":             icAtomicAdd,
		"sync/atomic.AddUint32":            icAtomicAdd,
		"sync/atomic.LoadUint64":           icAtomicLoad,
		"sync/atomic.LoadInt64":            icAtomicLoad,
		"(*golang.org/x/sync/errgroup.Group).Go":   icErrgroupGo,
		"(*golang.org/x/sync/errgroup.Group).Wait": icErrgroupWait,
		"context.WithValue":                icContextWithValue,
		"crypto/rand.Read":                 icRandRead,
		"strconv.Atoi":                     icStrconv,
		"strconv.ParseUint":                icStrconv,
		"strconv.ParseInt":                 icStrconv,
		"strconv.FormatUint":               icStrconv,
		"strconv.FormatInt":                icStrconv,
		"strconv.Itoa":                     icStrconv,
		"strconv.Quote":                    icStrconv,
		"unicode.IsLetter":                 icUnicode,
		"unicode.IsDigit":                  icUnicode,
		"unicode.IsPrint":                  icUnicode,
		"sort.Slice":                       icSortSlice,
		"slices.Grow":                      icSlicesGrow,
		"sort.Strings":                     icSortStrings,
		repoMod + "/eth.Keccak":            icKeccak,
	}
	registerUint256()
}

func icNop(e *Engine, fr *frame, fn *ssa.Function, args []Value, c *ssa.CallCommon) (Value, bool) {
	return e.zeroResults(fn), true
}

func icZero(e *Engine, fr *frame, fn *ssa.Function, args []Value, c *ssa.CallCommon) (Value, bool) {
	return e.zeroResults(fn), true
}

func icConstInt(v uint64) interceptFn {
	return func(e *Engine, fr *frame, fn *ssa.Function, args []Value, c *ssa.CallCommon) (Value, bool) {
		w, _, _ := intWidth(fn.Signature.Results().At(0).Type())
		return e.tt.Const(w, v), true
	}
}

func icConcreteOnly(e *Engine, fr *frame, fn *ssa.Function, args []Value, c *ssa.CallCommon) (Value, bool) {
	return nil, false
}

func icConcreteStr1(f func(string) string) interceptFn {
	return func(e *Engine, fr *frame, fn *ssa.Function, args []Value, c *ssa.CallCommon) (Value, bool) {
		if s, ok := e.goString(args[0]); ok {
			return e.concStr(f(s)), true
		}
		return nil, false
	}
}

// ---------- zzvrf intrinsics ----------

func (e *Engine) tagName(v Value) string {
	s, ok := e.goString(v)
	if !ok {
		panic(e.unsupported("zzvrf tag must be a concrete string"))
	}
	n := e.tagcount[s]
	e.tagcount[s] = n + 1
	if n > 0 {
		return fmt.Sprintf("%s#%d", s, n)
	}
	return s
}

func (e *Engine) replayVal(tag string) (any, bool) {
	if e.cfg.Replay == nil {
		return nil, false
	}
	v, ok := e.cfg.Replay[tag]
	return v, ok
}

func toU64(v any) uint64 {
	switch x := v.(type) {
	case float64:
		return uint64(x)
	case uint64:
		return x
	case int:
		return uint64(x)
	case int64:
		return uint64(x)
	case string:
		n, _ := strconv.ParseUint(x, 0, 64)
		return n
	case bool:
		if x {
			return 1
		}
	}
	return 0
}

func (e *Engine) symInt(tag string, w int) *Term {
	if e.cfg.Replay != nil {
		v, _ := e.replayVal(tag)
		return e.tt.Const(w, toU64(v))
	}
	t := e.tt.Var(tag, SBV, w)
	e.symvars = append(e.symvars, symVar{tag: tag, kind: "int", t: t})
	e.res.SymVars[tag] = fmt.Sprintf("bv%d", w)
	return t
}

func (e *Engine) symBytes(tag string, n int) *Term {
	if e.cfg.Replay != nil {
		v, _ := e.replayVal(tag)
		s, _ := v.(string)
		b, _ := hex.DecodeString(s)
		buf := make([]byte, n)
		copy(buf, b)
		return e.tt.ArrConst(buf)
	}
	t := e.tt.Var(tag, SArr, 0)
	e.symvars = append(e.symvars, symVar{tag: tag, kind: "bytes", t: t, n: n})
	e.res.SymVars[tag] = fmt.Sprintf("bytes[%d]", n)
	return t
}

func (e *Engine) intrinsic(fr *frame, fn *ssa.Function, args []Value, c *ssa.CallCommon) Value {
	name := fn.Name()
	if o := fn.Origin(); o != nil {
		name = o.Name()
	}
	switch name {
	case "U64", "Int", "I64":
		return e.symInt(e.tagName(args[0]), 64)
	case "U32":
		return e.symInt(e.tagName(args[0]), 32)
	case "U16":
		return e.symInt(e.tagName(args[0]), 16)
	case "U8":
		return e.symInt(e.tagName(args[0]), 8)
	case "Bool":
		tag := e.tagName(args[0])
		if e.cfg.Replay != nil {
			v, _ := e.replayVal(tag)
			return e.tt.Bool(toU64(v) != 0)
		}
		t := e.tt.Var(tag, SBool, 0)
		e.symvars = append(e.symvars, symVar{tag: tag, kind: "bool", t: t})
		e.res.SymVars[tag] = "bool"
		return t
	case "Bytes":
		tag := e.tagName(args[0])
		n := e.mustConst(args[1].(*Term), "Bytes len")
		cp := e.mustConst(args[2].(*Term), "Bytes cap")
		if cp < n {
			cp = n
		}
		arr := e.symBytes(tag, int(cp))
		return &Slice{bobj: e.newByteObj(arr), off: e.c64(0), len: e.c64(n), cap: e.c64(cp)}
	case "WithTail":
		// same bytes as base in [0,len), fresh symbolic bytes in [len,cap)
		base := args[0].(*Slice)
		tag := e.tagName(args[1])
		n := e.mustConst(base.len, "WithTail len")
		cp := e.mustConst(base.cap, "WithTail cap")
		off := e.mustConst(base.off, "WithTail off")
		if off != 0 || base.bobj == nil {
			panic(e.unsupported("WithTail on a non-zero-offset slice"))
		}
		tail := e.symBytes(tag, int(cp))
		return &Slice{bobj: e.newByteObj(e.tt.ArrSplit(n, base.bobj.arr, tail)), off: e.c64(0), len: e.c64(n), cap: e.c64(cp)}
	case "Hash32":
		// injective uninterpreted function (a, b) -> 32 bytes: "no hash collisions"
		tag, _ := e.goString(args[0])
		a, b := args[1].(*Term), args[2].(*Term)
		var h *Term
		if e.cfg.Replay != nil {
			h = e.tt.BigConst(256, new(big.Int).SetBytes(nativeHash32(tag, a.lo, b.lo)))
		} else {
			h = e.tt.App("H32_"+tag, SBV, 256, a, b)
			key := "h32:" + tag
			prev, _ := e.ghost[key].([]*Term)
			seen := false
			for _, o := range prev {
				if o == h {
					seen = true
				}
			}
			if !seen {
				for _, o := range prev {
					same := e.tt.And(e.tt.Eq(o.args[0], a), e.tt.Eq(o.args[1], b))
					e.addPC(e.tt.Or(same, e.tt.Not(e.tt.Eq(o, h))))
				}
				e.ghost[key] = append(prev, h)
			}
		}
		out := e.tt.ArrConst(nil)
		for i := 0; i < 32; i++ {
			out = e.tt.Store(out, e.c64(uint64(i)), e.tt.Extract(h, 255-8*i, 248-8*i))
		}
		n := e.c64(32)
		return &Slice{bobj: e.newByteObj(out), off: e.c64(0), len: n, cap: n}
	case "Str":
		tag := e.tagName(args[0])
		n := e.mustConst(args[1].(*Term), "Str len")
		arr := e.symBytes(tag, int(n))
		return e.normStr(&StringV{arr: arr, off: e.c64(0), len: e.c64(n)})
	case "Pick":
		tag := e.tagName(args[0])
		n := int(e.mustConst(args[1].(*Term), "Pick n"))
		_ = tag
		return e.c64(uint64(e.pick(n)))
	case "Assume":
		e.doAssume(args[0].(*Term), "assume@"+e.posString(c.Pos()))
		return nil
	case "Assert":
		id, _ := e.goString(args[1])
		e.doAssert(args[0].(*Term), id)
		return nil
	case "Reach":
		id, _ := e.goString(args[0])
		e.res.Reach[id]++
		if e.cfg.Replay != nil {
			e.res.Outputs = append(e.res.Outputs, "reach "+id)
		}
		return nil
	case "And":
		return e.tt.And(args[0].(*Term), args[1].(*Term))
	case "Or":
		return e.tt.Or(args[0].(*Term), args[1].(*Term))
	case "Not":
		return e.tt.Not(args[0].(*Term))
	case "Implies":
		return e.tt.Implies(args[0].(*Term), args[1].(*Term))
	case "Ite":
		c0 := args[0].(*Term)
		a, ok1 := args[1].(*Term)
		b, ok2 := args[2].(*Term)
		if ok1 && ok2 {
			return e.tt.Ite(c0, a, b)
		}
		if e.branch(c0) {
			return args[1]
		}
		return args[2]
	case "TextDependsOn":
		// the text is a function of symbolic input (not a constant)
		sv := args[0].(*StringV)
		return e.tt.Bool(!e.normStr(sv).conc)
	case "Scheduled":
		// scheduled mode: goroutines become engine threads; (preemption budget, scheduling-point bound)
		b := int(e.mustConst(args[0].(*Term), "Scheduled budget"))
		mp := int(e.mustConst(args[1].(*Term), "Scheduled bound"))
		e.threads = newThreadState(b, mp)
		return nil
	case "SchedFreeze":
		if e.threads != nil {
			e.threads.frozen = args[0].(*Term) == e.tt.True
		}
		return nil
	case "Yield":
		if e.threads != nil {
			e.threads.yield(e, "yield")
		}
		return nil
	case "RaceRecord":
		on := args[0].(*Term) == e.tt.True
		if e.race == nil {
			e.race = &raceRec{groups: map[*Cell][]int{}}
		}
		e.race.enabled = on
		return nil
	case "RaceCheck":
		id, _ := e.goString(args[0])
		if e.race != nil {
			e.raceFinish(id)
		}
		return nil
	case "AllocLimit":
		e.allocLimit = int(e.mustConst(args[0].(*Term), "AllocLimit"))
		return nil
	case "AllocCheck":
		if e.cfg.Replay != nil {
			// concrete mode mirrors the native outcome line (allocations are concrete here)
			id, _ := e.goString(args[0])
			e.doAssert(e.tt.True, id)
		}
		return nil
	case "Unwind":
		e.unwind = int(e.mustConst(args[0].(*Term), "Unwind"))
		return nil
	case "Flag":
		s, _ := e.goString(args[0])
		return e.tt.Bool(e.cfg.Flags[s])
	case "Event":
		s, ok := e.goString(args[0])
		if !ok {
			s = e.describe(args[0], 3)
		}
		e.events = append(e.events, s)
		return nil
	case "GoInline":
		e.goInline = args[0].(*Term) == e.tt.True
		return nil
	case "Symbolic":
		// reports whether running under the symbolic engine
		return e.tt.True
	case "PanicPos":
		if e.lastPanic != nil {
			return e.concStr(e.posString(e.lastPanic.pos) + " " + e.lastPanic.msg)
		}
		return e.concStr("")
	case "BytesEq":
		// term-level equality of two byte slices with concrete lengths (no forking)
		return e.bytesEqTerm(args[0].(*Slice), args[1].(*Slice))
	case "IsSubslice":
		// sub is a sub-range of the first n bytes of base's backing array
		sub, base := args[0].(*Slice), args[1].(*Slice)
		if sub.nilS {
			return e.tt.True
		}
		if sub.bobj == nil || sub.bobj != base.bobj {
			return e.tt.False
		}
		lo := e.tt.Bin(OpUle, base.off, sub.off)
		end := e.tt.Bin(OpAdd, sub.off, sub.len)
		bend := e.tt.Bin(OpAdd, base.off, base.len)
		noWrap := e.tt.Bin(OpUle, sub.off, end)
		return e.tt.And(lo, e.tt.And(noWrap, e.tt.Bin(OpUle, end, bend)))
	case "OffsetIn":
		// offset of sub within base (undefined if not a sub-slice)
		sub, base := args[0].(*Slice), args[1].(*Slice)
		return e.tt.Bin(OpSub, sub.off, base.off)
	}
	// fall through: ordinary Go function defined in zzvrf (models written in Go)
	return e.callFunction(fn, args, nil, nil)
}

func (e *Engine) bytesEqTerm(a, b *Slice) *Term {
	leq := e.tt.Eq(a.len, b.len)
	if leq == e.tt.False {
		return e.tt.False
	}
	var n uint64
	switch {
	case a.len.op == OpConst:
		n = a.len.lo
	case b.len.op == OpConst:
		n = b.len.lo
	default:
		if !e.branch(leq) {
			return e.tt.False
		}
		n = e.concretize(a.len)
		leq = e.tt.True
	}
	res := leq
	for i := uint64(0); i < n && res != e.tt.False; i++ {
		res = e.tt.And(res, e.tt.Eq(e.sliceLoad(a, e.c64(i)).(*Term), e.sliceLoad(b, e.c64(i)).(*Term)))
	}
	return res
}

// ---------- strings / bytes ----------

func icBytesEqual(e *Engine, fr *frame, fn *ssa.Function, args []Value, c *ssa.CallCommon) (Value, bool) {
	return e.bytesEqTerm(args[0].(*Slice), args[1].(*Slice)), true
}

// containsTerm: OR over positions p of AND_j hay[p+j]==needle[j]; lengths concrete.
func (e *Engine) containsTerm(hay, needle *StringV) *Term {
	hl := e.mustConst(e.strLen(hay), "haystack length")
	nl := e.mustConst(e.strLen(needle), "needle length")
	if nl == 0 {
		return e.tt.True
	}
	if nl > hl {
		return e.tt.False
	}
	res := e.tt.False
	for p := uint64(0); p+nl <= hl; p++ {
		m := e.tt.True
		for j := uint64(0); j < nl && m != e.tt.False; j++ {
			m = e.tt.And(m, e.tt.Eq(e.strByte(hay, e.c64(p+j)), e.strByte(needle, e.c64(j))))
		}
		res = e.tt.Or(res, m)
		if res == e.tt.True {
			break
		}
	}
	return res
}

func icStringsContains(e *Engine, fr *frame, fn *ssa.Function, args []Value, c *ssa.CallCommon) (Value, bool) {
	a, ok1 := e.goString(args[0])
	b, ok2 := e.goString(args[1])
	if ok1 && ok2 {
		return e.tt.Bool(strings.Contains(a, b)), true
	}
	return e.containsTerm(args[0].(*StringV), args[1].(*StringV)), true
}

func icBytesContains(e *Engine, fr *frame, fn *ssa.Function, args []Value, c *ssa.CallCommon) (Value, bool) {
	return e.containsTerm(e.bytesToString(args[0].(*Slice)), e.bytesToString(args[1].(*Slice))), true
}

func icStringsIndex(e *Engine, fr *frame, fn *ssa.Function, args []Value, c *ssa.CallCommon) (Value, bool) {
	a, ok1 := e.goString(args[0])
	b, ok2 := e.goString(args[1])
	if ok1 && ok2 {
		return e.c64(uint64(int64(strings.Index(a, b)))), true
	}
	// symbolic: fork over first-match position
	hay, needle := args[0].(*StringV), args[1].(*StringV)
	hl := e.mustConst(e.strLen(hay), "haystack length")
	nl := e.mustConst(e.strLen(needle), "needle length")
	for p := uint64(0); p+nl <= hl; p++ {
		m := e.tt.True
		for j := uint64(0); j < nl; j++ {
			m = e.tt.And(m, e.tt.Eq(e.strByte(hay, e.c64(p+j)), e.strByte(needle, e.c64(j))))
		}
		if e.branch(m) {
			return e.c64(p), true
		}
	}
	return e.c64(^uint64(0)), true
}

func icStringsIndexByte(e *Engine, fr *frame, fn *ssa.Function, args []Value, c *ssa.CallCommon) (Value, bool) {
	s := args[0].(*StringV)
	b := args[1].(*Term)
	n := e.mustConst(e.strLen(s), "string length")
	for p := uint64(0); p < n; p++ {
		if e.branch(e.tt.Eq(e.strByte(s, e.c64(p)), b)) {
			return e.c64(p), true
		}
	}
	return e.c64(^uint64(0)), true
}

func icStringsReplace(e *Engine, fr *frame, fn *ssa.Function, args []Value, c *ssa.CallCommon) (Value, bool) {
	s, ok1 := e.goString(args[0])
	o, ok2 := e.goString(args[1])
	n, ok3 := e.goString(args[2])
	k := args[3].(*Term)
	if ok1 && ok2 && ok3 && k.op == OpConst {
		return e.concStr(strings.Replace(s, o, n, int(int64(k.lo)))), true
	}
	// s, old concrete; new symbolic: splice around concrete match positions
	if ok1 && ok2 && k.op == OpConst {
		cnt := int(int64(k.lo))
		var res *StringV = e.concStr("")
		rest := s
		for cnt != 0 {
			i := strings.Index(rest, o)
			if i < 0 || o == "" {
				break
			}
			res = e.strConcat(res, e.concStr(rest[:i]))
			res = e.strConcat(res, args[2].(*StringV))
			rest = rest[i+len(o):]
			cnt--
		}
		return e.strConcat(res, e.concStr(rest)), true
	}
	return nil, false
}

func icStringsReplaceAll(e *Engine, fr *frame, fn *ssa.Function, args []Value, c *ssa.CallCommon) (Value, bool) {
	s, ok1 := e.goString(args[0])
	o, ok2 := e.goString(args[1])
	n, ok3 := e.goString(args[2])
	if ok1 && ok2 && ok3 {
		return e.concStr(strings.ReplaceAll(s, o, n)), true
	}
	// symbolic s, single-byte old/new concrete: byte-wise ite
	if ok2 && ok3 && len(o) == 1 && len(n) == 1 {
		sv := args[0].(*StringV)
		ln := e.mustConst(e.strLen(sv), "string length")
		arr := e.tt.ArrConst(nil)
		for i := uint64(0); i < ln; i++ {
			b := e.strByte(sv, e.c64(i))
			arr = e.tt.Store(arr, e.c64(i), e.tt.Ite(e.tt.Eq(b, e.tt.Const(8, uint64(o[0]))), e.tt.Const(8, uint64(n[0])), b))
		}
		return e.normStr(&StringV{arr: arr, off: e.c64(0), len: e.c64(ln)}), true
	}
	return nil, false
}

func icStringsToLower(e *Engine, fr *frame, fn *ssa.Function, args []Value, c *ssa.CallCommon) (Value, bool) {
	if s, ok := e.goString(args[0]); ok {
		return e.concStr(strings.ToLower(s)), true
	}
	sv := args[0].(*StringV)
	ln := e.mustConst(e.strLen(sv), "string length")
	arr := e.tt.ArrConst(nil)
	for i := uint64(0); i < ln; i++ {
		b := e.strByte(sv, e.c64(i))
		e.doAssume(e.tt.Bin(OpUlt, b, e.tt.Const(8, 0x80)), "ascii-tolower")
		up := e.tt.And(e.tt.Bin(OpUle, e.tt.Const(8, 'A'), b), e.tt.Bin(OpUle, b, e.tt.Const(8, 'Z')))
		arr = e.tt.Store(arr, e.c64(i), e.tt.Ite(up, e.tt.Bin(OpAdd, b, e.tt.Const(8, 32)), b))
	}
	return e.normStr(&StringV{arr: arr, off: e.c64(0), len: e.c64(ln)}), true
}

func icStringsJoin(e *Engine, fr *frame, fn *ssa.Function, args []Value, c *ssa.CallCommon) (Value, bool) {
	s := args[0].(*Slice)
	sep := args[1].(*StringV)
	n := e.mustConst(s.len, "join length")
	res := e.concStr("")
	for i := uint64(0); i < n; i++ {
		if i > 0 {
			res = e.strConcat(res, sep)
		}
		res = e.strConcat(res, e.sliceLoad(s, e.c64(i)).(*StringV))
	}
	return res, true
}

func builderBuf(e *Engine, p *Pointer) *Cell {
	agg := p.cell.v.(*Agg)
	st := agg.typ.Underlying().(*types.Struct)
	for i := 0; i < st.NumFields(); i++ {
		if st.Field(i).Name() == "buf" {
			return agg.cells[i]
		}
	}
	panic(e.unsupported("strings.Builder layout"))
}

func icBuilderWriteString(e *Engine, fr *frame, fn *ssa.Function, args []Value, c *ssa.CallCommon) (Value, bool) {
	buf := builderBuf(e, args[0].(*Pointer))
	s := args[1].(*StringV)
	buf.v = e.appendOp(buf.v.(*Slice), s, types.NewSlice(types.Typ[types.Byte]))
	return &Tuple{vals: []Value{e.strLen(s), &Iface{}}}, true
}

func icBuilderWriteByte(e *Engine, fr *frame, fn *ssa.Function, args []Value, c *ssa.CallCommon) (Value, bool) {
	buf := builderBuf(e, args[0].(*Pointer))
	one := &Slice{bobj: e.newByteObj(e.tt.Store(e.tt.ArrConst(nil), e.c64(0), args[1].(*Term))), off: e.c64(0), len: e.c64(1), cap: e.c64(1)}
	buf.v = e.appendOp(buf.v.(*Slice), one, types.NewSlice(types.Typ[types.Byte]))
	return &Iface{}, true
}

func icBuilderString(e *Engine, fr *frame, fn *ssa.Function, args []Value, c *ssa.CallCommon) (Value, bool) {
	buf := builderBuf(e, args[0].(*Pointer))
	return e.bytesToString(buf.v.(*Slice)), true
}

func icBuilderLen(e *Engine, fr *frame, fn *ssa.Function, args []Value, c *ssa.CallCommon) (Value, bool) {
	buf := builderBuf(e, args[0].(*Pointer))
	return buf.v.(*Slice).len, true
}

// ---------- fmt ----------

func (e *Engine) callMethod(recv *Iface, name string, args ...Value) (Value, bool) {
	if recv.typ == nil {
		return nil, false
	}
	ms := e.prog.MethodSets.MethodSet(recv.typ)
	for i := 0; i < ms.Len(); i++ {
		sel := ms.At(i)
		if sel.Obj().Name() == name {
			m := e.prog.MethodValue(sel)
			if m == nil {
				return nil, false
			}
			all := append([]Value{recv.val}, args...)
			return e.callFn(nil, m, all, nil, nil, nil), true
		}
	}
	return nil, false
}

// toGo converts a concrete engine value into a native Go value for fmt.
func (e *Engine) toGo(v Value, t types.Type) (any, bool) {
	switch x := v.(type) {
	case *Term:
		if !x.IsConst() {
			return nil, false
		}
		if x.kind == SBool {
			return x.lo == 1, true
		}
		if x.w > 64 {
			return x.Big(), true
		}
		_, signed, _ := intWidth(t)
		if signed {
			switch x.w {
			case 8:
				return int8(x.lo), true
			case 16:
				return int16(x.lo), true
			case 32:
				return int32(x.lo), true
			}
			return int64(x.lo), true
		}
		if x.w == 8 {
			return uint8(x.lo), true
		}
		return x.lo, true
	case *StringV:
		return e.goString(x)
	case *Slice:
		if x.nilS {
			return []byte(nil), true
		}
		if x.bobj != nil {
			return e.goBytes(x)
		}
		return nil, false
	case FloatV:
		return x.f, true
	case *Iface:
		if x.typ == nil {
			return nil, true
		}
		if s, ok := e.errorString(x); ok {
			if g, ok := e.goString(s); ok {
				return fmtError(g), true
			}
			return nil, false
		}
		if s, ok := e.callMethod(x, "String"); ok {
			if g, ok := e.goString(s); ok {
				return fmtStringer(g), true
			}
			return nil, false
		}
		return e.toGo(x.val, x.typ)
	case *Array:
		if len(x.elems) > 0 {
			if _, ok := x.elems[0].(*Term); ok && x.elems[0].(*Term).w == 8 {
				b := make([]byte, len(x.elems))
				for i, el := range x.elems {
					t := el.(*Term)
					if t.op != OpConst {
						return nil, false
					}
					b[i] = byte(t.lo)
				}
				return b, true
			}
		}
	}
	return nil, false
}

type fmtError string

func (f fmtError) Error() string { return string(f) }

type fmtStringer string

func (f fmtStringer) String() string { return string(f) }

func (e *Engine) errorString(x *Iface) (Value, bool) {
	if x.typ == nil {
		return nil, false
	}
	errT := types.Universe.Lookup("error").Type().Underlying().(*types.Interface)
	if !types.Implements(x.typ, errT) {
		return nil, false
	}
	return e.callMethod(x, "Error")
}

// sprintf builds the formatted string; symbolic arguments are supported for
// %s %v %q %w (strings/errors) and %x (bytes); anything else symbolic is
// rendered as the placeholder "<sym>".
func (e *Engine) sprintf(format string, args []Value) *StringV {
	res := e.concStr("")
	argi := 0
	i := 0
	for i < len(format) {
		j := strings.IndexByte(format[i:], '%')
		if j < 0 {
			res = e.strConcat(res, e.concStr(format[i:]))
			break
		}
		res = e.strConcat(res, e.concStr(format[i:i+j]))
		i += j
		// parse verb
		k := i + 1
		for k < len(format) && strings.IndexByte("+-# 0123456789.", format[k]) >= 0 {
			k++
		}
		if k >= len(format) {
			res = e.strConcat(res, e.concStr(format[i:]))
			break
		}
		verb := format[k]
		spec := format[i : k+1]
		i = k + 1
		if verb == '%' {
			res = e.strConcat(res, e.concStr("%"))
			continue
		}
		if argi >= len(args) {
			res = e.strConcat(res, e.concStr("%!"+string(verb)+"(MISSING)"))
			continue
		}
		a := args[argi]
		argi++
		iv, _ := a.(*Iface)
		var inner Value = a
		var it types.Type
		if iv != nil {
			inner, it = iv.val, iv.typ
		}
		if verb == 'w' {
			spec = spec[:len(spec)-1] + "v"
			verb = 'v'
		}
		if verb == 'T' {
			tn := "<nil>"
			if it != nil {
				tn = it.String()
			}
			res = e.strConcat(res, e.concStr(tn))
			continue
		}
		if g, ok := e.toGo(a, it); ok {
			res = e.strConcat(res, e.concStr(fmt.Sprintf(spec, g)))
			continue
		}
		// symbolic argument
		switch verb {
		case 's', 'v', 'q':
			var sv *StringV
			switch x := inner.(type) {
			case *StringV:
				sv = x
			case *Slice:
				if verb == 's' && x.bobj != nil {
					sv = e.bytesToString(x)
				}
			}
			if sv == nil && iv != nil {
				if s, ok := e.errorString(iv); ok {
					sv = s.(*StringV)
				} else if s, ok := e.callMethod(iv, "String"); ok {
					sv = s.(*StringV)
				}
			}
			if sv != nil && spec == "%"+string(verb) {
				if verb == 'q' {
					res = e.strConcat(e.strConcat(e.strConcat(res, e.concStr(`"`)), sv), e.concStr(`"`))
				} else {
					res = e.strConcat(res, sv)
				}
				continue
			}
		case 'x':
			if x, ok := inner.(*Slice); ok && spec == "%x" && x.len.op == OpConst {
				n := x.len.lo
				arr := e.tt.ArrConst(nil)
				hexd := func(nib *Term) *Term {
					return e.tt.Ite(e.tt.Bin(OpUlt, nib, e.tt.Const(8, 10)), e.tt.Bin(OpAdd, nib, e.tt.Const(8, '0')), e.tt.Bin(OpAdd, nib, e.tt.Const(8, 'a'-10)))
				}
				for q := uint64(0); q < n; q++ {
					b := e.sliceLoad(x, e.c64(q)).(*Term)
					arr = e.tt.Store(arr, e.c64(2*q), hexd(e.tt.Bin(OpLShr, b, e.tt.Const(8, 4))))
					arr = e.tt.Store(arr, e.c64(2*q+1), hexd(e.tt.Bin(OpBAnd, b, e.tt.Const(8, 15))))
				}
				res = e.strConcat(res, e.normStr(&StringV{arr: arr, off: e.c64(0), len: e.c64(2 * n)}))
				continue
			}
		}
		e.res.Stubs["fmt: symbolic argument rendered as <sym> ("+spec+")"]++
		res = e.strConcat(res, e.concStr("<sym>"))
	}
	return res
}

func (e *Engine) variadic(v Value) []Value {
	s := v.(*Slice)
	if s.nilS {
		return nil
	}
	n := e.mustConst(s.len, "variadic length")
	out := make([]Value, n)
	for i := uint64(0); i < n; i++ {
		out[i] = e.sliceLoad(s, e.c64(i))
	}
	return out
}

func icSprintf(e *Engine, fr *frame, fn *ssa.Function, args []Value, c *ssa.CallCommon) (Value, bool) {
	f, ok := e.goString(args[0])
	if !ok {
		panic(e.unsupported("symbolic format string"))
	}
	return e.sprintf(f, e.variadic(args[1])), true
}

// fmt.Appendf(b, format, a...) = append(b, Sprintf(format, a...)...)
func icAppendf(e *Engine, fr *frame, fn *ssa.Function, args []Value, c *ssa.CallCommon) (Value, bool) {
	f, ok := e.goString(args[1])
	if !ok {
		panic(e.unsupported("symbolic format string"))
	}
	str := e.sprintf(f, e.variadic(args[2]))
	return e.appendOp(args[0].(*Slice), str, types.NewSlice(types.Typ[types.Byte])), true
}

func icSprint(e *Engine, fr *frame, fn *ssa.Function, args []Value, c *ssa.CallCommon) (Value, bool) {
	vs := e.variadic(args[0])
	res := e.concStr("")
	for _, v := range vs {
		res = e.strConcat(res, e.sprintf("%v", []Value{v}))
	}
	return res, true
}

func (e *Engine) newErrorString(msg *StringV) Value {
	ep := e.prog.ImportedPackage("errors")
	t := ep.Type("errorString").Type()
	c := e.newCell(t)
	c.v.(*Agg).cells[0].v = msg
	return &Iface{typ: types.NewPointer(t), val: &Pointer{cell: c}}
}

func icErrorf(e *Engine, fr *frame, fn *ssa.Function, args []Value, c *ssa.CallCommon) (Value, bool) {
	f, ok := e.goString(args[0])
	if !ok {
		panic(e.unsupported("symbolic format string"))
	}
	vs := e.variadic(args[1])
	msg := e.sprintf(f, vs)
	// find %w operand
	var wrapped *Iface
	argi := 0
	for i := 0; i < len(f); i++ {
		if f[i] != '%' {
			continue
		}
		k := i + 1
		for k < len(f) && strings.IndexByte("+-# 0123456789.", f[k]) >= 0 {
			k++
		}
		if k >= len(f) {
			break
		}
		if f[k] == '%' {
			i = k
			continue
		}
		if f[k] == 'w' && argi < len(vs) && wrapped == nil {
			if iv, ok := vs[argi].(*Iface); ok && iv.typ != nil {
				wrapped = iv
			}
		}
		argi++
		i = k
	}
	if wrapped == nil {
		return e.newErrorString(msg), true
	}
	fp := e.prog.ImportedPackage("fmt")
	t := fp.Type("wrapError").Type()
	cell := e.newCell(t)
	agg := cell.v.(*Agg)
	agg.cells[0].v = msg
	agg.cells[1].v = wrapped
	return &Iface{typ: types.NewPointer(t), val: &Pointer{cell: cell}}, true
}

func icErrorsIs(e *Engine, fr *frame, fn *ssa.Function, args []Value, c *ssa.CallCommon) (Value, bool) {
	err := args[0].(*Iface)
	target := args[1].(*Iface)
	errT := types.Universe.Lookup("error").Type()
	for depth := 0; depth < 64; depth++ {
		if err.typ == nil || target.typ == nil {
			return e.tt.Bool(err.typ == nil && target.typ == nil), true
		}
		if eq := e.valEq(err, target, errT); eq == e.tt.True {
			return e.tt.True, true
		} else if eq != e.tt.False {
			if e.branch(eq) {
				return e.tt.True, true
			}
		}
		// Is method
		if r, ok := e.callMethodSig(err, "Is", target); ok {
			if e.branch(r.(*Term)) {
				return e.tt.True, true
			}
		}
		next, ok := e.callMethod(err, "Unwrap")
		if !ok {
			return e.tt.False, true
		}
		ni, isI := next.(*Iface)
		if !isI {
			// Unwrap() []error
			if sl, ok := next.(*Slice); ok {
				for _, el := range e.variadic(sl) {
					r, _ := icErrorsIs(e, fr, fn, []Value{el, target}, c)
					if r == e.tt.True {
						return e.tt.True, true
					}
				}
			}
			return e.tt.False, true
		}
		err = ni
	}
	return e.tt.False, true
}

func (e *Engine) callMethodSig(recv *Iface, name string, args ...Value) (Value, bool) {
	ms := e.prog.MethodSets.MethodSet(recv.typ)
	for i := 0; i < ms.Len(); i++ {
		if ms.At(i).Obj().Name() == name {
			sig := ms.At(i).Type().(*types.Signature)
			if sig.Params().Len() != len(args) {
				return nil, false
			}
			return e.callMethod(recv, name, args...)
		}
	}
	return nil, false
}

// ---------- sync ----------

func fieldCell(e *Engine, p *Pointer, name string) *Cell {
	if p.IsNil() || p.cell == nil {
		panic(e.raise("nil", "nil pointer dereference in sync primitive", token.NoPos))
	}
	agg := p.cell.v.(*Agg)
	st := agg.typ.Underlying().(*types.Struct)
	for i := 0; i < st.NumFields(); i++ {
		if st.Field(i).Name() == name {
			return agg.cells[i]
		}
	}
	panic(e.unsupported("field " + name + " not found in " + agg.typ.String()))
}

func icMutexLock(e *Engine, fr *frame, fn *ssa.Function, args []Value, c *ssa.CallCommon) (Value, bool) {
	st := fieldCell(e, args[0].(*Pointer), "state")
	if e.threads != nil {
		e.threads.lock(e, st)
		return nil, true
	}
	if st.v.(*Term).lo != 0 {
		panic(pathEnd{"deadlock", "Lock of a locked mutex (sequential mode)"})
	}
	st.v = e.tt.Const(32, 1)
	if e.raceOn() {
		e.raceAdd('a', st, e.curPos(), false, 0)
	}
	return nil, true
}

// TryLock never blocks: it is a scheduling point (scheduled mode), then
// acquires the mutex iff it is free.
func icMutexTryLock(e *Engine, fr *frame, fn *ssa.Function, args []Value, c *ssa.CallCommon) (Value, bool) {
	st := fieldCell(e, args[0].(*Pointer), "state")
	if e.threads != nil {
		e.threads.yield(e, "trylock")
	}
	if st.v.(*Term).lo != 0 {
		return e.tt.False, true
	}
	st.v = e.tt.Const(32, 1)
	if e.raceOn() {
		e.raceAdd('a', st, e.curPos(), false, 0)
	}
	return e.tt.True, true
}

func icMutexUnlock(e *Engine, fr *frame, fn *ssa.Function, args []Value, c *ssa.CallCommon) (Value, bool) {
	st := fieldCell(e, args[0].(*Pointer), "state")
	if st.v.(*Term).lo == 0 {
		gp := &goPanic{val: &Iface{typ: types.Typ[types.String], val: e.concStr("sync: unlock of unlocked mutex")}, kind: "unlock", msg: "fatal error: sync: unlock of unlocked mutex"}
		if c != nil {
			gp.pos = c.Pos()
		}
		e.lastPanic = gp
		panic(gp)
	}
	st.v = e.tt.Const(32, 0)
	if e.raceOn() {
		e.raceAdd('l', st, e.curPos(), false, 0)
	}
	if e.threads != nil {
		e.threads.unlock(e, st)
	}
	return nil, true
}

func icOnceDo(e *Engine, fr *frame, fn *ssa.Function, args []Value, c *ssa.CallCommon) (Value, bool) {
	done := fieldCell(e, args[0].(*Pointer), "done")
	// done is atomic.Uint32{_ noCopy; v uint32} or uint32 depending on Go version
	var vc *Cell
	if agg, ok := done.v.(*Agg); ok {
		vc = agg.cells[len(agg.cells)-1]
	} else {
		vc = done
	}
	if e.raceOn() {
		e.raceAdd('r', vc, e.curPos(), true, 0) // atomic load of done
	}
	if vc.v.(*Term).lo != 0 {
		return nil, true
	}
	mst := fieldCell(e, &Pointer{cell: fieldCell(e, args[0].(*Pointer), "m")}, "state")
	if e.raceOn() {
		e.raceAdd('a', mst, e.curPos(), false, 0)
	}
	vc.v = e.tt.Const(32, 1)
	e.invoke(fr, args[1], nil, nil, nil)
	if e.raceOn() {
		e.raceAdd('w', vc, e.curPos(), true, 0) // atomic store of done
		e.raceAdd('l', mst, e.curPos(), false, 0)
	}
	return nil, true
}

func wgCounter(e *Engine, p *Pointer) *Cell {
	// ghost counter keyed by the WaitGroup cell
	key := fmt.Sprintf("wg:%p", p.cell)
	if v, ok := e.ghost[key]; ok {
		return v.(*Cell)
	}
	c := &Cell{v: e.c64(0)}
	e.ghost[key] = c
	return c
}

func icWGAdd(e *Engine, fr *frame, fn *ssa.Function, args []Value, c *ssa.CallCommon) (Value, bool) {
	ctr := wgCounter(e, args[0].(*Pointer))
	ctr.v = e.tt.Bin(OpAdd, ctr.v.(*Term), args[1].(*Term))
	return nil, true
}

func icWGDone(e *Engine, fr *frame, fn *ssa.Function, args []Value, c *ssa.CallCommon) (Value, bool) {
	ctr := wgCounter(e, args[0].(*Pointer))
	ctr.v = e.tt.Bin(OpSub, ctr.v.(*Term), e.c64(1))
	if e.raceOn() {
		e.raceAdd('s', ctr, e.curPos(), false, 0)
	}
	if e.threads != nil {
		e.threads.yield(e, "wg.Done")
	}
	return nil, true
}

func icWGWait(e *Engine, fr *frame, fn *ssa.Function, args []Value, c *ssa.CallCommon) (Value, bool) {
	ctr := wgCounter(e, args[0].(*Pointer))
	if e.threads != nil {
		e.threads.waitZero(e, ctr)
		return nil, true
	}
	if ctr.v.(*Term).lo != 0 {
		panic(pathEnd{"deadlock", "WaitGroup.Wait with non-zero counter (sequential mode: goroutines not scheduled)"})
	}
	if e.raceOn() {
		e.raceAdd('W', ctr, e.curPos(), false, 0)
	}
	return nil, true
}

func icAtomicAdd(e *Engine, fr *frame, fn *ssa.Function, args []Value, c *ssa.CallCommon) (Value, bool) {
	p := args[0].(*Pointer)
	e.raceAtomic = true
	defer func() { e.raceAtomic = false }()
	old := e.load(p, nil, e.curPos()).(*Term)
	nv := e.tt.Bin(OpAdd, old, args[1].(*Term))
	e.store(p, nv, nil, e.curPos())
	return nv, true
}

func icAtomicLoad(e *Engine, fr *frame, fn *ssa.Function, args []Value, c *ssa.CallCommon) (Value, bool) {
	e.raceAtomic = true
	defer func() { e.raceAtomic = false }()
	return e.load(args[0].(*Pointer), nil, e.curPos()), true
}

func icSleep(e *Engine, fr *frame, fn *ssa.Function, args []Value, c *ssa.CallCommon) (Value, bool) {
	if e.threads != nil {
		e.threads.sleep(e)
	}
	return nil, true
}

func icErrgroupGo(e *Engine, fr *frame, fn *ssa.Function, args []Value, c *ssa.CallCommon) (Value, bool) {
	g := args[0].(*Pointer)
	f := args[1].(*Closure)
	if e.threads != nil {
		ts := e.threads
		cnt := ts.groups[g.cell]
		if cnt == nil {
			cnt = new(int)
			ts.groups[g.cell] = cnt
		}
		*cnt++
		ts.spawnFn(e, f.fn.Name(), func() {
			e.runGroupFn(nil, g, f)
			*cnt--
		})
		return nil, true
	}
	if e.cfg.GoOrder == 1 {
		e.pendingBy[g.cell] = append(e.pendingBy[g.cell], f)
		return nil, true
	}
	e.runGroupFn(fr, g, f)
	return nil, true
}

func (e *Engine) runGroupFn(fr *frame, g *Pointer, f *Closure) {
	var r *Iface
	e.raceSpawn(g.cell, e.curPos(), func() { r = e.invoke(fr, f, nil, nil, nil).(*Iface) })
	errc := fieldCell(e, g, "err")
	if r.typ != nil && errc.v.(*Iface).typ == nil {
		errc.v = r
	}
}

func icErrgroupWait(e *Engine, fr *frame, fn *ssa.Function, args []Value, c *ssa.CallCommon) (Value, bool) {
	g := args[0].(*Pointer)
	if e.threads != nil {
		if cnt := e.threads.groups[g.cell]; cnt != nil {
			e.threads.block(e, func() bool { return *cnt == 0 }, "errgroup.Wait")
		}
		return fieldCell(e, g, "err").v, true
	}
	if ps := e.pendingBy[g.cell]; len(ps) > 0 {
		delete(e.pendingBy, g.cell)
		for i := len(ps) - 1; i >= 0; i-- {
			e.runGroupFn(fr, g, ps[i])
		}
	}
	e.raceJoin(g.cell, e.curPos())
	return fieldCell(e, g, "err").v, true
}

func icContextWithValue(e *Engine, fr *frame, fn *ssa.Function, args []Value, c *ssa.CallCommon) (Value, bool) {
	cp := e.prog.ImportedPackage("context")
	t := cp.Type("valueCtx").Type()
	cell := e.newCell(t)
	agg := cell.v.(*Agg)
	agg.cells[0].v = args[0] // embedded Context
	agg.cells[1].v = args[1]
	agg.cells[2].v = args[2]
	return &Iface{typ: types.NewPointer(t), val: &Pointer{cell: cell}}, true
}

func icRandRead(e *Engine, fr *frame, fn *ssa.Function, args []Value, c *ssa.CallCommon) (Value, bool) {
	// arbitrary bytes: a fresh symbolic array (solver mode); zeros in concrete replay
	s := args[0].(*Slice)
	for _, f := range e.curFn {
		if f.Pkg != nil && strings.HasSuffix(f.Pkg.Pkg.Path(), "/web") {
			e.usedRand = true // generated password: the native run draws other bytes
		}
	}
	if e.cfg.Replay == nil && s.bobj != nil && s.len.op == OpConst {
		arr := e.tt.Fresh("rand", SArr, 0)
		for i := uint64(0); i < s.len.lo; i++ {
			e.sliceStore(s, e.c64(i), e.tt.Select(arr, e.c64(i)))
		}
	}
	return &Tuple{vals: []Value{s.len, &Iface{}}}, true
}

// ---------- strconv / unicode ----------

func icStrconv(e *Engine, fr *frame, fn *ssa.Function, args []Value, c *ssa.CallCommon) (Value, bool) {
	mkErr := func(err error) Value {
		if err == nil {
			return &Iface{}
		}
		return e.newErrorString(e.concStr(err.Error()))
	}
	ci := func(i int) (uint64, bool) {
		t := args[i].(*Term)
		return t.lo, t.op == OpConst
	}
	switch fn.Name() {
	case "Atoi":
		s, ok := e.goString(args[0])
		if !ok {
			return nil, false
		}
		n, err := strconv.Atoi(s)
		return &Tuple{vals: []Value{e.c64(uint64(int64(n))), mkErr(err)}}, true
	case "ParseUint":
		s, ok := e.goString(args[0])
		b, ok2 := ci(1)
		bs, ok3 := ci(2)
		if !ok || !ok2 || !ok3 {
			return nil, false
		}
		n, err := strconv.ParseUint(s, int(b), int(bs))
		return &Tuple{vals: []Value{e.c64(n), mkErr(err)}}, true
	case "ParseInt":
		s, ok := e.goString(args[0])
		b, ok2 := ci(1)
		bs, ok3 := ci(2)
		if !ok || !ok2 || !ok3 {
			return nil, false
		}
		n, err := strconv.ParseInt(s, int(b), int(bs))
		return &Tuple{vals: []Value{e.c64(uint64(n)), mkErr(err)}}, true
	case "FormatUint":
		n, ok := ci(0)
		b, ok2 := ci(1)
		if !ok || !ok2 {
			e.res.Stubs["strconv.FormatUint: symbolic argument rendered as <sym>"]++
			return e.concStr("<sym>"), true
		}
		return e.concStr(strconv.FormatUint(n, int(b))), true
	case "FormatInt":
		n, ok := ci(0)
		b, ok2 := ci(1)
		if !ok || !ok2 {
			e.res.Stubs["strconv.FormatInt: symbolic argument rendered as <sym>"]++
			return e.concStr("<sym>"), true
		}
		return e.concStr(strconv.FormatInt(int64(n), int(b))), true
	case "Itoa":
		n, ok := ci(0)
		if !ok {
			e.res.Stubs["strconv.Itoa: symbolic argument rendered as <sym>"]++
			return e.concStr("<sym>"), true
		}
		return e.concStr(strconv.Itoa(int(int64(n)))), true
	case "Quote":
		s, ok := e.goString(args[0])
		if !ok {
			sv := args[0].(*StringV)
			return e.strConcat(e.strConcat(e.concStr(`"`), sv), e.concStr(`"`)), true
		}
		return e.concStr(strconv.Quote(s)), true
	}
	return nil, false
}

func icUnicode(e *Engine, fr *frame, fn *ssa.Function, args []Value, c *ssa.CallCommon) (Value, bool) {
	r := args[0].(*Term)
	if r.op == OpConst {
		rr := rune(int32(r.lo))
		switch fn.Name() {
		case "IsLetter":
			return e.tt.Bool(unicode.IsLetter(rr)), true
		case "IsDigit":
			return e.tt.Bool(unicode.IsDigit(rr)), true
		case "IsPrint":
			return e.tt.Bool(unicode.IsPrint(rr)), true
		}
	}
	// exact for ASCII; symbolic runes are ASCII by the range-string assumption
	e.doAssume(e.tt.Bin(OpUlt, r, e.tt.Const(32, 0x80)), "ascii-unicode-class")
	in := func(lo, hi byte) *Term {
		return e.tt.And(e.tt.Bin(OpUle, e.tt.Const(32, uint64(lo)), r), e.tt.Bin(OpUle, r, e.tt.Const(32, uint64(hi))))
	}
	switch fn.Name() {
	case "IsLetter":
		return e.tt.Or(in('a', 'z'), in('A', 'Z')), true
	case "IsDigit":
		return in('0', '9'), true
	case "IsPrint":
		return in(0x20, 0x7e), true
	}
	return nil, false
}

// ---------- sorting ----------

func icSortSlice(e *Engine, fr *frame, fn *ssa.Function, args []Value, c *ssa.CallCommon) (Value, bool) {
	iv := args[0].(*Iface)
	s := iv.val.(*Slice)
	less := args[1]
	n := int(e.mustConst(s.len, "sort length"))
	// insertion sort calling less(i, j) and swapping elements in place
	for i := 1; i < n; i++ {
		for j := i; j > 0; j-- {
			r := e.invoke(fr, less, []Value{e.c64(uint64(j)), e.c64(uint64(j - 1))}, nil, nil).(*Term)
			if !e.branch(r) {
				break
			}
			a := e.sliceLoad(s, e.c64(uint64(j)))
			b := e.sliceLoad(s, e.c64(uint64(j-1)))
			e.sliceStore(s, e.c64(uint64(j)), b)
			e.sliceStore(s, e.c64(uint64(j-1)), a)
		}
	}
	return nil, true
}

func icSortStrings(e *Engine, fr *frame, fn *ssa.Function, args []Value, c *ssa.CallCommon) (Value, bool) {
	s := args[0].(*Slice)
	n := int(e.mustConst(s.len, "sort length"))
	strs := make([]string, n)
	for i := 0; i < n; i++ {
		g, ok := e.goString(e.sliceLoad(s, e.c64(uint64(i))))
		if !ok {
			panic(e.unsupported("sort.Strings on symbolic strings"))
		}
		strs[i] = g
	}
	sort.Strings(strs)
	for i := 0; i < n; i++ {
		e.sliceStore(s, e.c64(uint64(i)), e.concStr(strs[i]))
	}
	return nil, true
}

func nativeHash32(tag string, a, b uint64) []byte {
	var buf [16]byte
	binary.BigEndian.PutUint64(buf[:8], a)
	binary.BigEndian.PutUint64(buf[8:], b)
	h := sha256.Sum256(append([]byte(tag), buf[:]...))
	return h[:]
}

func (e *Engine) goStrings(list []string) *Slice {
	agg := e.newAgg(types.Typ[types.String], len(list))
	for i, x := range list {
		agg.cells[i].v = e.concStr(x)
	}
	n := e.c64(uint64(len(list)))
	return &Slice{agg: agg, off: e.c64(0), len: n, cap: n}
}

func icStringsSplit(e *Engine, fr *frame, fn *ssa.Function, args []Value, c *ssa.CallCommon) (Value, bool) {
	a, ok1 := e.goString(args[0])
	b, ok2 := e.goString(args[1])
	if !ok1 || !ok2 {
		panic(e.unsupported("strings.Split on symbolic strings"))
	}
	return e.goStrings(strings.Split(a, b)), true
}

func icStringsFields(e *Engine, fr *frame, fn *ssa.Function, args []Value, c *ssa.CallCommon) (Value, bool) {
	a, ok := e.goString(args[0])
	if !ok {
		panic(e.unsupported("strings.Fields on symbolic strings"))
	}
	return e.goStrings(strings.Fields(a)), true
}

func icStrStrInt(f func(a, b string) int) interceptFn {
	return func(e *Engine, fr *frame, fn *ssa.Function, args []Value, c *ssa.CallCommon) (Value, bool) {
		a, ok1 := e.goString(args[0])
		b, ok2 := e.goString(args[1])
		if !ok1 || !ok2 {
			panic(e.unsupported(fn.String() + " on symbolic strings"))
		}
		return e.c64(uint64(int64(f(a, b)))), true
	}
}

func icStrStrStr(f func(a, b string) string) interceptFn {
	return func(e *Engine, fr *frame, fn *ssa.Function, args []Value, c *ssa.CallCommon) (Value, bool) {
		a, ok1 := e.goString(args[0])
		b, ok2 := e.goString(args[1])
		if !ok1 || !ok2 {
			panic(e.unsupported(fn.String() + " on symbolic strings"))
		}
		return e.concStr(f(a, b)), true
	}
}

func icSlicesGrow(e *Engine, fr *frame, fn *ssa.Function, args []Value, c *ssa.CallCommon) (Value, bool) {
	n := args[1].(*Term)
	e.require(e.tt.Bin(OpSle, e.c64(0), n), "explicit", "cannot be negative", token.NoPos)
	e.allocCheck(n)
	// capacity is not observable by the code under analysis beyond append behaviour
	return args[0], true
}

// ---------- sync.Map (sequential semantics over the engine's map model) ----------

func (e *Engine) syncMapOf(p Value) *MapObj {
	ptr, ok := p.(*Pointer)
	if !ok || ptr.cell == nil {
		panic(e.unsupported("sync.Map receiver"))
	}
	if e.syncMaps == nil {
		e.syncMaps = map[*Cell]*MapObj{}
	}
	m := e.syncMaps[ptr.cell]
	if m == nil {
		any := types.NewInterfaceType(nil, nil)
		m = &MapObj{index: map[string]int{}, kt: any, vt: any}
		e.syncMaps[ptr.cell] = m
	}
	return m
}

func icSyncMapLoad(e *Engine, fr *frame, fn *ssa.Function, args []Value, c *ssa.CallCommon) (Value, bool) {
	m := e.syncMapOf(args[0])
	e.raceAccessMapAtomic(m)
	if i := e.mapFind(m, args[1]); i >= 0 {
		return &Tuple{vals: []Value{m.vals[i], e.tt.True}}, true
	}
	return &Tuple{vals: []Value{&Iface{}, e.tt.False}}, true
}

func icSyncMapStore(e *Engine, fr *frame, fn *ssa.Function, args []Value, c *ssa.CallCommon) (Value, bool) {
	m := e.syncMapOf(args[0])
	e.raceAccessMapAtomic(m)
	e.mapSet(m, args[1], args[2])
	return nil, true
}

func icSyncMapLoadOrStore(e *Engine, fr *frame, fn *ssa.Function, args []Value, c *ssa.CallCommon) (Value, bool) {
	m := e.syncMapOf(args[0])
	e.raceAccessMapAtomic(m)
	if i := e.mapFind(m, args[1]); i >= 0 {
		return &Tuple{vals: []Value{m.vals[i], e.tt.True}}, true
	}
	e.mapSet(m, args[1], args[2])
	return &Tuple{vals: []Value{args[2], e.tt.False}}, true
}

func icSyncMapDelete(e *Engine, fr *frame, fn *ssa.Function, args []Value, c *ssa.CallCommon) (Value, bool) {
	m := e.syncMapOf(args[0])
	e.raceAccessMapAtomic(m)
	e.mapDelete(m, args[1])
	return nil, true
}

// sync.Map operations are synchronised internally: they are not logged as plain accesses.
func (e *Engine) raceAccessMapAtomic(m *MapObj) {}

// ---------- net address parsing on concrete strings (flag "real-net") ----------
// Without the flag these calls keep their oracle redirects (redirectTable).

func icNetSplitHostPort(e *Engine, fr *frame, fn *ssa.Function, args []Value, c *ssa.CallCommon) (Value, bool) {
	if !e.cfg.Flags["real-net"] {
		return nil, false
	}
	s, ok := e.goString(args[0])
	if !ok {
		panic(e.unsupported("net.SplitHostPort of a symbolic address"))
	}
	h, p, err := net.SplitHostPort(s)
	var ev Value = &Iface{}
	if err != nil {
		ev = e.newErrorString(e.concStr(err.Error()))
	}
	return &Tuple{vals: []Value{e.concStr(h), e.concStr(p), ev}}, true
}

func icNetParseIP(e *Engine, fr *frame, fn *ssa.Function, args []Value, c *ssa.CallCommon) (Value, bool) {
	if !e.cfg.Flags["real-net"] {
		return nil, false
	}
	s, ok := e.goString(args[0])
	if !ok {
		panic(e.unsupported("net.ParseIP of a symbolic string"))
	}
	ip := net.ParseIP(s)
	if ip == nil {
		return &Slice{nilS: true, off: e.c64(0), len: e.c64(0), cap: e.c64(0)}, true
	}
	return e.bytesFromGo([]byte(ip)), true
}

// icNetIPPred evaluates a (net.IP) predicate natively on a concrete address
// (flag "real-net"); net's package-level address constants are not
// initialised in the engine, so the real bodies cannot be interpreted.
func icNetIPPred(f func(net.IP) bool) interceptFn {
	return func(e *Engine, fr *frame, fn *ssa.Function, args []Value, c *ssa.CallCommon) (Value, bool) {
		if !e.cfg.Flags["real-net"] {
			return nil, false
		}
		sl, _ := args[0].(*Slice)
		if sl == nil || sl.nilS {
			return e.tt.Bool(f(nil)), true
		}
		b, ok := e.goBytes(sl)
		if !ok {
			panic(e.unsupported("net.IP predicate on a symbolic address"))
		}
		return e.tt.Bool(f(net.IP(b))), true
	}
}
