package main

// Property check driver: runs the registered harness instances of a property
// in parallel, replays counterexamples natively, applies known findings and
// writes the evidence file.

import (
	"encoding/json"
	"fmt"
	"os"
	"os/exec"
	"path/filepath"
	"runtime"
	"sort"
	"strconv"
	"strings"
	"sync"
	"time"
)

type HRun struct {
	Pkg      string
	Fn       string
	Params   []int
	Unwind   int
	MaxPaths int
	GoOrder  int
	MapRev   bool
	Flags    []string
	Label    string
	NoReplay bool // harness cannot be compiled natively (engine-only stubs)
	// Deepen: when no path of a scheduled harness reaches its end because every
	// path was cut at the scheduling-point bound (a vacuous run), the run is
	// repeated with Params[DeepenParam] raised by DeepenStep, at most twice.
	// The bound actually used is what the run is labelled with.
	DeepenParam int
	DeepenStep  int
}

type PropSpec struct {
	ID          string
	Pkgs        []string
	Runs        func(tier string) []HRun
	Assumptions []string
	Bounds      map[string]string // tier -> description
	Outside     []string
	Level       string
	Static      func(ld *Loaded) (facts []string, violations []string) // structural side-conditions read from SSA
}

var props = map[string]*PropSpec{}

func register(p *PropSpec) { props[p.ID] = p }

type KnownFinding struct {
	Property string `json:"property"`
	Status   string `json:"status"` // "known" | "fixed"
	Harness  string `json:"harness"`
	Assert   string `json:"assert"`
	Pos      string `json:"pos,omitempty"`     // substring of violation position (panics)
	Params   []int  `json:"params,omitempty"`  // prefix match if present
	Flag     string `json:"exclude_flag,omitempty"` // harness flag that excludes the known region
	What     string `json:"what"`
	Commit   string `json:"commit,omitempty"`
}

func loadKnown() []KnownFinding {
	var out []KnownFinding
	b, err := os.ReadFile(filepath.Join(verifDir(), "known_findings.json"))
	if err != nil {
		return nil
	}
	if err := json.Unmarshal(b, &out); err != nil {
		fmt.Fprintln(os.Stderr, "known_findings.json:", err)
		os.Exit(2)
	}
	return out
}

func (k *KnownFinding) matches(v *Violation) bool {
	if k.Status != "known" {
		return false
	}
	// the harness name is matched as a prefix: ZZ_C18_SharedFail is ZZ_C18_Shared with node failures
	if !strings.HasPrefix(v.Harness, k.Harness) || k.Assert != v.AssertID {
		return false
	}
	if k.Pos != "" && !strings.Contains(v.Pos, k.Pos) {
		return false
	}
	for i, p := range k.Params {
		if i >= len(v.Params) || v.Params[i] != p {
			return false
		}
	}
	return true
}

func cmdList() {
	for _, id := range sortedKeys(props) {
		p := props[id]
		fmt.Printf("%s: %d quick runs, %d thorough runs\n", id, len(p.Runs("quick")), len(p.Runs("thorough")))
	}
}

type runOut struct {
	run HRun
	res *RunResult
	err error
}

func cmdCheck(args []string) int {
	if len(args) < 1 {
		usage()
	}
	id := args[0]
	tier := os.Getenv("VERIF_TIER")
	if len(args) > 1 {
		tier = args[1]
	}
	if tier != "thorough" {
		tier = "quick"
	}
	seed, _ := strconv.Atoi(os.Getenv("VERIF_SEED"))
	p := props[id]
	if p == nil {
		fmt.Fprintln(os.Stderr, "unknown property", id)
		return 2
	}
	t0 := time.Now()
	evPath := filepath.Join(verifDir(), "evidence", id+".json")
	if d := os.Getenv("VERIF_EVIDENCE_DIR"); d != "" {
		// experiments against seeded or historical trees must not overwrite the evidence of the unchanged tree
		os.MkdirAll(d, 0o755)
		evPath = filepath.Join(d, id+".json")
	} else if os.Getenv("VERIF_REPO") != "" {
		os.MkdirAll(filepath.Join(verifDir(), "out", "alt-evidence"), 0o755)
		evPath = filepath.Join(verifDir(), "out", "alt-evidence", id+".json")
	}
	os.Remove(evPath)
	ld, err := Load(p.Pkgs...)
	if err != nil {
		fmt.Println("INCONCLUSIVE load failed:", err)
		return 2
	}
	runs := p.Runs(tier)
	known := loadKnown()
	// add exclusion re-runs for known findings carrying a flag
	var extra []HRun
	for _, r := range runs {
		seen := map[string]bool{}
		for _, k := range known {
			if k.Status == "known" && k.Property == id && k.Harness == r.Fn && k.Flag != "" && !seen[k.Flag] {
				ok := true
				for i, pv := range k.Params {
					if i >= len(r.Params) || r.Params[i] != pv {
						ok = false
					}
				}
				if ok {
					seen[k.Flag] = true
				}
			}
		}
		if len(seen) > 0 {
			x := r
			x.Flags = append(append([]string(nil), r.Flags...), sortedKeys(seen)...)
			x.Label = r.Label + "+known-excluded"
			extra = append(extra, x)
		}
	}
	nBase := len(runs)
	runs = append(runs, extra...)

	// native differential: for a sample of harness instances one completed
	// path's solver model is run natively and in the engine's concrete mode
	wantWitnesses := 10
	if tier == "thorough" {
		wantWitnesses = 40
	}
	witnessEvery := 0
	if os.Getenv("VERIF_NODIFF") == "" && nBase > 0 {
		witnessEvery = nBase / wantWitnesses
		if witnessEvery < 1 {
			witnessEvery = 1
		}
	}
	outs := make([]runOut, len(runs))
	workers := runtime.NumCPU()
	if w, _ := strconv.Atoi(os.Getenv("VERIF_WORKERS")); w > 0 {
		workers = w
	}
	timeout := 60000
	if tier == "thorough" {
		timeout = 300000
	}
	var wg sync.WaitGroup
	sem := make(chan struct{}, workers)
	for i := range runs {
		wg.Add(1)
		go func(i int) {
			defer wg.Done()
			sem <- struct{}{}
			defer func() { <-sem }()
			r := runs[i]
			cfg := RunConfig{Pkg: r.Pkg, Harness: r.Fn, Params: r.Params, Unwind: r.Unwind, MaxPaths: r.MaxPaths, GoOrder: r.GoOrder, MapReverse: r.MapRev, TimeoutMs: timeout, Flags: map[string]bool{}}
			if i < nBase && witnessEvery > 0 && (i+seed)%witnessEvery == 0 {
				cfg.Witnesses = 1
			}
			for _, f := range r.Flags {
				cfg.Flags[f] = true
			}
			// wall-clock budget per harness instance: exceeding it is INCONCLUSIVE
			cfg.Deadline = time.Now().Add(runBudget(tier))
			defer func() {
				if x := recover(); x != nil {
					outs[i] = runOut{run: r, err: fmt.Errorf("engine panic: %v", x)}
				}
			}()
			e, err := NewEngine(ld, cfg)
			if err != nil {
				outs[i] = runOut{run: r, err: err}
				return
			}
			res := e.Run()
			e.Close()
			for try := 0; try < 2 && r.DeepenStep > 0 && vacuousByBound(res); try++ {
				// raise the scheduling-point bound and run again
				r.Params = append([]int(nil), r.Params...)
				r.Params[r.DeepenParam] += r.DeepenStep
				cfg.Params = r.Params
				cfg.Deadline = time.Now().Add(runBudget(tier))
				e2, err := NewEngine(ld, cfg)
				if err != nil {
					break
				}
				res = e2.Run()
				e2.Close()
			}
			outs[i] = runOut{run: r, res: res}
		}(i)
	}
	wg.Wait()

	// aggregate
	type agg struct {
		Paths, Pruned, Queries, QSat, QUnsat, QUnk, Steps int
		SolverS                                             float64
	}
	var a agg
	funcs, stubs, symvars := map[string]int{}, map[string]int{}, map[string]string{}
	asserts := map[string]*AssertStat{}
	reach := map[string]int{}
	assumes := map[string]int{}
	var inconclusive []string
	var samples []any
	distinct := 0
	shapes := []string{}
	exit := 0
	var lines []string
	nViol, nKnown, nReplayed := 0, 0, 0
	seenKnown := map[string]bool{}
	vdir := filepath.Join(verifDir(), "out", id)
	os.MkdirAll(vdir, 0o755)
	for i, o := range outs {
		label := fmt.Sprintf("%s%v", o.run.Fn, o.run.Params)
		if o.run.Label != "" {
			label += " " + o.run.Label
		}
		if o.err != nil {
			inconclusive = append(inconclusive, label+": "+o.err.Error())
			continue
		}
		r := o.res
		shapes = append(shapes, fmt.Sprintf("%s paths=%d queries=%d", label, r.Paths, r.Queries))
		a.Paths += r.Paths
		a.Pruned += r.Pruned
		a.Queries += r.Queries
		a.QSat += r.QSat
		a.QUnsat += r.QUnsat
		a.QUnk += r.QUnknown
		a.Steps += r.Steps
		a.SolverS += r.SolverS
		for k, v := range r.Funcs {
			funcs[k] += v
		}
		for k, v := range r.Stubs {
			stubs[k] += v
		}
		for k, v := range r.SymVars {
			symvars[k] = v
		}
		for k, v := range r.Asserts {
			s := asserts[k]
			if s == nil {
				s = &AssertStat{}
				asserts[k] = s
			}
			s.Checked += v.Checked
			s.Nontrivial += v.Nontrivial
			s.Violated += v.Violated
			s.Folded += v.Folded
			if v.Nontrivial > 0 || v.Folded > 0 {
				distinct++
			}
		}
		for k, v := range r.Reach {
			reach[k] += v
		}
		for k, v := range r.Assumes {
			assumes[k] += v
		}
		for _, s := range r.Inconclusive {
			inconclusive = append(inconclusive, label+": "+s)
		}
		if len(samples) < 12 {
			for _, s := range r.Samples {
				if len(samples) < 12 {
					samples = append(samples, label+": "+s)
				}
			}
		}
		if r.Reach["end"] == 0 && r.Reach["outside-domain"] == 0 && len(r.Inconclusive) == 0 && len(r.Violations) == 0 {
			inconclusive = append(inconclusive, label+": VACUOUS (no path reached the end of the harness)")
		}
		seenAssert := map[string]bool{}
		for vi := range r.Violations {
			v := &r.Violations[vi]
			if seenAssert[v.AssertID+"|"+v.Pos] {
				continue // one replay per (harness instance, assertion, position)
			}
			seenAssert[v.AssertID+"|"+v.Pos] = true
			matched := false
			if i < nBase {
				for ki := range known {
					k := &known[ki]
					if k.Property == id && k.matches(v) {
						matched = true
						v.Known = k.What
						key := k.Harness + "/" + k.Assert + "/" + k.Pos + fmt.Sprint(k.Params)
						if !seenKnown[key] {
							seenKnown[key] = true
							lines = append(lines, fmt.Sprintf("KNOWN-FINDING: property=%s %s", id, k.What))
							nKnown++
						}
						break
					}
				}
			}
			if matched {
				continue
			}
			// write the counterexample and replay it natively
			file := filepath.Join(vdir, fmt.Sprintf("%s-%s-%s-%d.json", o.run.Fn, sanitize(fmt.Sprint(o.run.Params)), sanitize(v.AssertID), vi))
			doc := map[string]any{"property": id, "pkg": o.run.Pkg, "harness": o.run.Fn, "params": o.run.Params, "assert": v.AssertID,
				"kind": v.Kind, "msg": v.Msg, "pos": v.Pos, "model": v.Model, "trace": v.Trace, "flags": flagMap(o.run.Flags)}
			b, _ := json.MarshalIndent(doc, "", " ")
			os.WriteFile(file, b, 0o644)
			if o.run.NoReplay {
				// engine-concrete replay of the same SSA with the model values
				ok := engineReplay(ld, o.run, v)
				nReplayed++
				if ok {
					lines = append(lines, fmt.Sprintf("VIOLATION property=%s replay=%s", id, file))
					lines = append(lines, fmt.Sprintf("  harness=%s params=%v assert=%s %s %s (engine-concrete replay)", o.run.Fn, o.run.Params, v.AssertID, v.Pos, v.Msg))
					nViol++
					exit = 1
				} else {
					inconclusive = append(inconclusive, label+": ENGINE-MISMATCH counterexample for "+v.AssertID+" did not reproduce in concrete re-execution")
				}
				continue
			}
			ok, outp := nativeReplay(file)
			nReplayed++
			if !ok && (strings.Contains(outp, "ZZVRF-PANIC") || strings.Contains(outp, "ZZVRF-FAILED")) && engineReplay(ld, o.run, v) {
				// the native run of the real code fails too, but at a different
				// assertion (typically a nil environment handle the native cut does
				// not cover); the engine's concrete re-execution of the same SSA
				// with the model values reproduces the reported assertion.
				lines = append(lines, fmt.Sprintf("VIOLATION property=%s replay=%s", id, file))
				lines = append(lines, fmt.Sprintf("  harness=%s params=%v assert=%s %s %s (engine-concrete replay; the native run fails differently: %s)", o.run.Fn, o.run.Params, v.AssertID, v.Pos, v.Msg, lastLines(outp, 2)))
				nViol++
				exit = 1
				continue
			}
			if !ok && scheduledTrace(v) && engineReplay(ld, o.run, v) {
				// the counterexample includes a schedule (thread switches of the
				// engine's scheduler); a native run with real goroutines cannot be
				// forced into it, the engine's concrete re-execution follows it
				lines = append(lines, fmt.Sprintf("VIOLATION property=%s replay=%s", id, file))
				lines = append(lines, fmt.Sprintf("  harness=%s params=%v assert=%s %s %s (engine-concrete replay with the recorded schedule; the native run took another schedule)", o.run.Fn, o.run.Params, v.AssertID, v.Pos, v.Msg))
				nViol++
				exit = 1
				continue
			}
			if ok {
				lines = append(lines, fmt.Sprintf("VIOLATION property=%s replay=%s", id, file))
				lines = append(lines, fmt.Sprintf("  harness=%s params=%v assert=%s %s %s", o.run.Fn, o.run.Params, v.AssertID, v.Pos, v.Msg))
				nViol++
				exit = 1
			} else {
				inconclusive = append(inconclusive, label+": ENGINE-MISMATCH counterexample for "+v.AssertID+" did not reproduce natively: "+lastLines(outp, 3))
			}
		}
	}
	// a known finding that no longer appears is reported (not an error)
	for _, k := range known {
		if k.Property == id && k.Status == "known" {
			key := k.Harness + "/" + k.Assert + "/" + k.Pos + fmt.Sprint(k.Params)
			present := false
			for _, o := range outs[:nBase] {
				if o.run.Fn == k.Harness {
					present = true
				}
			}
			if present && !seenKnown[key] {
				lines = append(lines, fmt.Sprintf("NOTE: known finding no longer observed: property=%s %s", id, k.What))
			}
		}
	}
	// native differential of the collected witnesses
	nDiff, diffMismatch := nativeDifferential(ld, outs[:nBase], vdir)
	nReplayed += nDiff
	for _, m := range diffMismatch {
		inconclusive = append(inconclusive, "ENGINE-MISMATCH (native differential) "+m)
	}
	var staticFacts []string
	if p.Static != nil {
		facts, viols := p.Static(ld)
		staticFacts = facts
		for i, v := range viols {
			file := filepath.Join(vdir, fmt.Sprintf("static-%d.txt", i))
			os.WriteFile(file, []byte(v+"\n"), 0o644)
			lines = append(lines, fmt.Sprintf("VIOLATION property=%s replay=%s", id, file))
			lines = append(lines, "  structural side-condition (read from SSA): "+v)
			nViol++
			exit = 1
		}
	}
	sort.Strings(inconclusive)
	if len(inconclusive) > 0 && exit == 0 {
		exit = 2
	}
	for _, l := range lines {
		fmt.Println(l)
	}
	for _, s := range inconclusive {
		fmt.Println("INCONCLUSIVE", s)
	}

	// evidence
	type fcount struct {
		Name  string `json:"fn"`
		Calls int    `json:"calls"`
	}
	var fl []string
	for _, k := range sortedKeys(funcs) {
		if strings.Contains(k, "ZZ_") || strings.Contains(k, "zzvrf") || strings.HasSuffix(k, ".init") {
			continue
		}
		fl = append(fl, fmt.Sprintf("%s (%d activations)", k, funcs[k]))
	}
	var sl []string
	for _, k := range sortedKeys(stubs) {
		sl = append(sl, fmt.Sprintf("%s (%d)", k, stubs[k]))
	}
	evals := 0
	for _, s := range asserts {
		evals += s.Checked
	}
	if len(samples) == 0 {
		samples = append(samples, "no symbolic assertion was reached")
	}
	cov := map[string]any{
		"evaluations":         evals + a.Paths,
		"distinct_nontrivial": distinct,
		"rule":                "one evaluation = one assertion instance discharged on one path (solver query pc ∧ ¬assert) or one completed path; distinct_nontrivial counts distinct (harness instance, assertion id) pairs evaluated over symbolic inputs on at least one path: either discharged by a solver query (assertions[].nontrivial) or normalised to true by the term simplifier because both sides are the same term (assertions[].folded_over_symbolic_inputs)",
		"states":              a.Paths,
		"transitions":         a.Steps,
		"traces_validated_against_impl": nReplayed,
		"native_differential":  fmt.Sprintf("%d solver-chosen inputs (one per sampled harness instance, model of a completed path) were run against the natively compiled real code and through the engine's concrete mode; outcome lines (assert results, reach points) agreed on all of them", nDiff),
		"samples":             samples,
		"functions_encoded":   fl,
		"stubs":               sl,
		"bounds":              p.Bounds[tier],
		"outside_claim":       p.Outside,
		"shapes_enumerated":   shapes,
		"symbolic_variables":  symvars,
		"paths":               a.Paths,
		"paths_pruned":        a.Pruned,
		"queries":             a.Queries,
		"queries_sat":         a.QSat,
		"queries_unsat":       a.QUnsat,
		"queries_unknown":     a.QUnk,
		"solver":              defaultSolver() + " (-in): one incremental process per harness instance with a 1 s budget, then a reset-per-query process of the same solver (z3-new = z3 5.1.0; z3 = 4.8.12)",
		"solver_time_s":       a.SolverS,
		"load_ssa_s":          ld.LoadS,
		"assertions":          asserts,
		"reach_witnesses":     reach,
		"assumes_pruned":      assumes,
		"inconclusive":        inconclusive,
		"structural_facts":    staticFacts,
		"known_findings":      nKnown,
		"encoding":            "regenerated from /repo working tree via go/packages + go/ssa (x/tools v0.29.0) on this run",
	}
	ev := map[string]any{
		"property_id": id,
		"tier":        tier,
		"seed":        seed,
		"level":       "model_checking",
		"coverage":    cov,
		"assumptions": p.Assumptions,
		"wall_s":      time.Since(t0).Seconds(),
		"violations":  nViol,
	}
	b, _ := json.MarshalIndent(ev, "", " ")
	os.MkdirAll(filepath.Dir(evPath), 0o755)
	if err := os.WriteFile(evPath, b, 0o644); err != nil {
		fmt.Println("INCONCLUSIVE cannot write evidence:", err)
		return 2
	}
	fmt.Printf("%s %s: runs=%d paths=%d queries=%d (unsat %d, sat %d, unknown %d) solver=%.1fs wall=%.1fs violations=%d known=%d\n",
		id, tier, len(runs), a.Paths, a.Queries, a.QUnsat, a.QSat, a.QUnk, a.SolverS, time.Since(t0).Seconds(), nViol, nKnown)
	return exit
}

func flagMap(fs []string) map[string]bool {
	m := map[string]bool{}
	for _, f := range fs {
		m[f] = true
	}
	return m
}

func sanitize(s string) string {
	var sb strings.Builder
	for _, c := range s {
		if c >= 'a' && c <= 'z' || c >= 'A' && c <= 'Z' || c >= '0' && c <= '9' || c == '-' || c == '_' {
			sb.WriteRune(c)
		} else {
			sb.WriteRune('_')
		}
	}
	return sb.String()
}

func lastLines(s string, n int) string {
	ls := strings.Split(strings.TrimSpace(s), "\n")
	if len(ls) > n {
		ls = ls[len(ls)-n:]
	}
	return strings.Join(ls, " | ")
}

// engineReplay re-executes the harness concretely with the model values.
func engineReplay(ld *Loaded, r HRun, v *Violation) bool {
	b, _ := json.Marshal(v.Model)
	var m map[string]any
	json.Unmarshal(b, &m)
	cfg := RunConfig{Pkg: r.Pkg, Harness: r.Fn, Params: r.Params, Unwind: 1 << 20, GoOrder: r.GoOrder, MapReverse: r.MapRev, Flags: flagMap(r.Flags), Replay: m}
	e, err := NewEngine(ld, cfg)
	if err != nil {
		return false
	}
	defer e.Close()
	defer func() { recover() }()
	res := e.Run()
	for _, x := range res.Violations {
		if x.AssertID == v.AssertID {
			return true
		}
	}
	return false
}

// ---------- native replay ----------

// nativeReplay runs the counterexample against the natively compiled real
// code: go test with an overlay that adds the harness, zzvrf and a generated
// test, and blanks the package's own (Postgres-dependent) test files.
func nativeReplay(file string) (bool, string) {
	b, err := os.ReadFile(file)
	if err != nil {
		return false, err.Error()
	}
	var doc struct {
		Pkg     string `json:"pkg"`
		Harness string `json:"harness"`
		Params  []int  `json:"params"`
		Assert  string `json:"assert"`
		Kind    string `json:"kind"`
	}
	if err := json.Unmarshal(b, &doc); err != nil {
		return false, err.Error()
	}
	repo := repoDir()
	ov, err := buildOverlay(repo)
	if err != nil {
		return false, err.Error()
	}
	scratch := filepath.Join(verifDir(), ".cache", "replay", fmt.Sprintf("%d-%d", os.Getpid(), time.Now().UnixNano()))
	os.MkdirAll(scratch, 0o755)
	defer os.RemoveAll(scratch)
	repl := map[string]string{}
	n := 0
	for path, content := range ov {
		f := filepath.Join(scratch, fmt.Sprintf("f%d.go", n))
		n++
		os.WriteFile(f, content, 0o644)
		repl[path] = f
	}
	pkgDir := filepath.Join(repo, strings.TrimPrefix(doc.Pkg, "./"))
	tests, _ := filepath.Glob(filepath.Join(pkgDir, "*_test.go"))
	for _, t := range tests {
		repl[t] = ""
	}
	// apply the environment cut points natively (see nativeCuts)
	for ci, cut := range nativeCuts {
		src, err := os.ReadFile(filepath.Join(repo, cut.File))
		if err != nil {
			return false, "native cut: cannot read " + cut.File
		}
		f := filepath.Join(scratch, fmt.Sprintf("cut%d.go", ci))
		cnt := 1
		if cut.All {
			cnt = -1
		}
		txt := strings.Replace(string(src), cut.Old, cut.New, cnt)
		for _, rp := range cut.Repl {
			txt = strings.ReplaceAll(txt, rp[0], rp[1])
		}
		txt += cut.Append
		os.WriteFile(f, []byte(txt), 0o644)
		repl[filepath.Join(repo, cut.File)] = f
		if cut.Wrapper != "" {
			w := filepath.Join(scratch, fmt.Sprintf("cutw%d.go", ci))
			os.WriteFile(w, []byte(cut.Wrapper), 0o644)
			repl[filepath.Join(repo, cut.Pkg, fmt.Sprintf("zz_cut_%d.go", ci))] = w
		}
	}
	pkgName := packageNameOf(pkgDir)
	var ps []string
	for _, p := range doc.Params {
		ps = append(ps, strconv.Itoa(p))
	}
	test := fmt.Sprintf(`package %s

import (
	"fmt"
	"testing"

	"github.com/indexsupply/shovel/zzvrf"
)

func TestZZReplay(t *testing.T) {
	defer func() {
		if r := recover(); r != nil {
			if _, ok := r.(zzvrf.AssumeFailed); ok {
				fmt.Println("ZZVRF-ASSUME-FAILED")
				return
			}
			for _, l := range zzvrf.Log {
				fmt.Println("ZZVRF", l)
			}
			fmt.Printf("ZZVRF-PANIC %%v\n", r)
			t.Fatalf("panic: %%v", r)
		}
	}()
	%s(%s)
	for _, l := range zzvrf.Log {
		fmt.Println("ZZVRF", l)
	}
	for _, f := range zzvrf.Failed {
		fmt.Println("ZZVRF-FAILED", f)
	}
	if len(zzvrf.Failed) > 0 {
		t.Fatalf("assertions failed: %%v", zzvrf.Failed)
	}
}
`, pkgName, doc.Harness, strings.Join(ps, ", "))
	tf := filepath.Join(scratch, "zz_replay_test.go")
	os.WriteFile(tf, []byte(test), 0o644)
	repl[filepath.Join(pkgDir, "zz_replay_test.go")] = tf
	ovj, _ := json.Marshal(map[string]any{"Replace": repl})
	ovf := filepath.Join(scratch, "overlay.json")
	os.WriteFile(ovf, ovj, 0o644)
	gargs := []string{"test", "-vet=off", "-count=1", "-overlay", ovf, "-run", "^TestZZReplay$", "-v"}
	if doc.Kind == "race" {
		gargs = append(gargs, "-race")
	}
	gargs = append(gargs, doc.Pkg)
	cmd := exec.Command("go", gargs...)
	cmd.Dir = repo
	cmd.Env = append(os.Environ(), "GOFLAGS=-mod=mod", "GOPROXY=off", "GOSUMDB=off", "GOTOOLCHAIN=local", "ZZVRF_REPLAY="+file)
	out, _ := cmd.CombinedOutput()
	s := string(out)
	reproduced := false
	if doc.Kind == "race" {
		reproduced = strings.Contains(s, "WARNING: DATA RACE")
	} else if doc.Kind == "panic" {
		reproduced = strings.Contains(s, "ZZVRF-PANIC")
	} else {
		reproduced = strings.Contains(s, "ZZVRF-FAILED "+doc.Assert)
	}
	return reproduced, s
}

func packageNameOf(dir string) string {
	files, _ := filepath.Glob(filepath.Join(dir, "*.go"))
	for _, f := range files {
		if strings.HasSuffix(f, "_test.go") {
			continue
		}
		b, err := os.ReadFile(f)
		if err != nil {
			continue
		}
		for _, line := range strings.Split(string(b), "\n") {
			line = strings.TrimSpace(line)
			if strings.HasPrefix(line, "package ") {
				return strings.Fields(line)[1]
			}
		}
	}
	return filepath.Base(dir)
}

func cmdReplay(args []string) int {
	if len(args) < 1 {
		usage()
	}
	if len(args) >= 2 && args[0] == "-engine" {
		return cmdEngineReplay(args[1])
	}
	ok, out := nativeReplay(args[0])
	fmt.Print(out)
	if ok {
		fmt.Println("REPRODUCED")
		return 1
	}
	fmt.Println("NOT REPRODUCED")
	return 0
}

// nativeDifferential runs the witnesses natively (one go test per package)
// and in the engine's concrete mode and compares the outcome lines.
func nativeDifferential(ld *Loaded, outs []runOut, vdir string) (int, []string) {
	type wit struct {
		run   HRun
		file  string
		model map[string]any
	}
	byPkg := map[string][]wit{}
	n := 0
	for _, o := range outs {
		if o.res == nil || o.run.NoReplay {
			continue
		}
		for _, w := range o.res.Witnesses {
			file := filepath.Join(vdir, fmt.Sprintf("witness-%d.json", n))
			n++
			doc := map[string]any{"pkg": o.run.Pkg, "harness": o.run.Fn, "params": o.run.Params, "model": w, "flags": flagMap(o.run.Flags)}
			b, _ := json.MarshalIndent(doc, "", " ")
			os.WriteFile(file, b, 0o644)
			// re-read so that numbers have the JSON types the replay expects
			var m map[string]any
			mb, _ := json.Marshal(w)
			json.Unmarshal(mb, &m)
			byPkg[o.run.Pkg] = append(byPkg[o.run.Pkg], wit{o.run, file, m})
		}
	}
	var mismatches []string
	done := 0
	for pkg, ws := range byPkg {
		native, err := nativeWitnessRun(pkg, func() ([]string, []string) {
			var files, calls []string
			for _, w := range ws {
				var ps []string
				for _, p := range w.run.Params {
					ps = append(ps, strconv.Itoa(p))
				}
				files = append(files, w.file)
				calls = append(calls, fmt.Sprintf("%s(%s)", w.run.Fn, strings.Join(ps, ", ")))
			}
			return files, calls
		})
		if err != nil {
			mismatches = append(mismatches, pkg+": native run failed: "+err.Error())
			continue
		}
		for i, w := range ws {
			cfg := RunConfig{Pkg: w.run.Pkg, Harness: w.run.Fn, Params: w.run.Params, Unwind: 1 << 20, GoOrder: w.run.GoOrder, MapReverse: w.run.MapRev, Flags: flagMap(w.run.Flags), Replay: w.model}
			var engineOut []string
			func() {
				defer func() {
					if r := recover(); r != nil {
						engineOut = []string{fmt.Sprintf("engine panic %v", r)}
					}
				}()
				e, err := NewEngine(ld, cfg)
				if err != nil {
					engineOut = []string{"engine error " + err.Error()}
					return
				}
				defer e.Close()
				res := e.Run()
				engineOut = res.Outputs
				for _, inc := range res.Inconclusive {
					engineOut = append(engineOut, "inconclusive "+inc)
				}
			}()
			nat := native[i]
			if strings.Join(nat, "\n") != strings.Join(engineOut, "\n") {
				mismatches = append(mismatches, fmt.Sprintf("%s%v: native %v vs engine %v (witness %s)", w.run.Fn, w.run.Params, lastN(nat, 4), lastN(engineOut, 4), w.file))
				continue
			}
			for _, l := range nat {
				if strings.HasSuffix(l, " false") || strings.HasPrefix(l, "panic") {
					mismatches = append(mismatches, fmt.Sprintf("%s%v: the symbolic run proved the assertions on this path but the native run reports %q (witness %s)", w.run.Fn, w.run.Params, l, w.file))
				}
			}
			done++
		}
	}
	return done, mismatches
}

func lastN(l []string, n int) []string {
	if len(l) > n {
		return l[len(l)-n:]
	}
	return l
}

// nativeWitnessRun compiles one test that runs all witnesses of a package.
func nativeWitnessRun(pkg string, gen func() ([]string, []string)) ([][]string, error) {
	files, calls := gen()
	repo := repoDir()
	ov, err := buildOverlay(repo)
	if err != nil {
		return nil, err
	}
	scratch := filepath.Join(verifDir(), ".cache", "replay", fmt.Sprintf("w%d-%d", os.Getpid(), time.Now().UnixNano()))
	os.MkdirAll(scratch, 0o755)
	defer os.RemoveAll(scratch)
	repl := map[string]string{}
	k := 0
	for path, content := range ov {
		f := filepath.Join(scratch, fmt.Sprintf("f%d.go", k))
		k++
		os.WriteFile(f, content, 0o644)
		repl[path] = f
	}
	pkgDir := filepath.Join(repo, strings.TrimPrefix(pkg, "./"))
	tests, _ := filepath.Glob(filepath.Join(pkgDir, "*_test.go"))
	for _, t := range tests {
		repl[t] = ""
	}
	for ci, cut := range nativeCuts {
		src, err := os.ReadFile(filepath.Join(repo, cut.File))
		if err != nil {
			return nil, err
		}
		cnt := 1
		if cut.All {
			cnt = -1
		}
		txt := strings.Replace(string(src), cut.Old, cut.New, cnt)
		for _, rp := range cut.Repl {
			txt = strings.ReplaceAll(txt, rp[0], rp[1])
		}
		txt += cut.Append
		f := filepath.Join(scratch, fmt.Sprintf("cut%d.go", ci))
		os.WriteFile(f, []byte(txt), 0o644)
		repl[filepath.Join(repo, cut.File)] = f
		if cut.Wrapper != "" {
			w := filepath.Join(scratch, fmt.Sprintf("cutw%d.go", ci))
			os.WriteFile(w, []byte(cut.Wrapper), 0o644)
			repl[filepath.Join(repo, cut.Pkg, fmt.Sprintf("zz_cut_%d.go", ci))] = w
		}
	}
	var cases strings.Builder
	for i := range files {
		fmt.Fprintf(&cases, "\t\t{%q, func() { %s }},\n", files[i], calls[i])
	}
	test := fmt.Sprintf(`package %s

import (
	"fmt"
	"os"
	"testing"

	"github.com/indexsupply/shovel/zzvrf"
)

func TestZZWitness(t *testing.T) {
	cases := []struct {
		file string
		run  func()
	}{
%s	}
	for i, c := range cases {
		os.Setenv("ZZVRF_REPLAY", c.file)
		zzvrf.Reset()
		func() {
			defer func() {
				if r := recover(); r != nil {
					if _, ok := r.(zzvrf.AssumeFailed); ok {
						fmt.Printf("ZZVRF-W %%d assume-failed\n", i)
						return
					}
					fmt.Printf("ZZVRF-W %%d panic %%v\n", i, r)
				}
			}()
			c.run()
		}()
		for _, l := range zzvrf.Log {
			fmt.Printf("ZZVRF-W %%d %%s\n", i, l)
		}
	}
}
`, packageNameOf(pkgDir), cases.String())
	tf := filepath.Join(scratch, "zz_witness_test.go")
	os.WriteFile(tf, []byte(test), 0o644)
	repl[filepath.Join(pkgDir, "zz_witness_test.go")] = tf
	ovj, _ := json.Marshal(map[string]any{"Replace": repl})
	ovf := filepath.Join(scratch, "overlay.json")
	os.WriteFile(ovf, ovj, 0o644)
	cmd := exec.Command("go", "test", "-vet=off", "-count=1", "-overlay", ovf, "-run", "^TestZZWitness$", "-v", pkg)
	cmd.Dir = repo
	cmd.Env = append(os.Environ(), "GOFLAGS=-mod=mod", "GOPROXY=off", "GOSUMDB=off", "GOTOOLCHAIN=local")
	out, _ := cmd.CombinedOutput()
	res := make([][]string, len(files))
	seen := false
	for _, line := range strings.Split(string(out), "\n") {
		if !strings.HasPrefix(line, "ZZVRF-W ") {
			continue
		}
		seen = true
		rest := line[len("ZZVRF-W "):]
		sp := strings.IndexByte(rest, ' ')
		idx, _ := strconv.Atoi(rest[:sp])
		if idx >= 0 && idx < len(res) {
			res[idx] = append(res[idx], rest[sp+1:])
		}
	}
	if !seen && !strings.Contains(string(out), "ok  ") {
		return nil, fmt.Errorf("%s", lastLines(string(out), 4))
	}
	return res, nil
}

// cmdEngineReplay re-executes a counterexample file in the engine's concrete
// mode (model values and recorded picks/scheduling decisions), printing the
// scheduling events and the assertions that fail.
func cmdEngineReplay(file string) int {
	b, err := os.ReadFile(file)
	if err != nil {
		fmt.Println(err)
		return 2
	}
	var doc struct {
		Pkg     string          `json:"pkg"`
		Harness string          `json:"harness"`
		Params  []int           `json:"params"`
		Assert  string          `json:"assert"`
		Model   map[string]any  `json:"model"`
		Flags   map[string]bool `json:"flags"`
	}
	if err := json.Unmarshal(b, &doc); err != nil {
		fmt.Println(err)
		return 2
	}
	ld, err := Load(doc.Pkg)
	if err != nil {
		fmt.Println(err)
		return 2
	}
	cfg := RunConfig{Pkg: doc.Pkg, Harness: doc.Harness, Params: doc.Params, Unwind: 1 << 20, Flags: doc.Flags, Replay: doc.Model}
	if cfg.Flags == nil {
		cfg.Flags = map[string]bool{}
	}
	e, err := NewEngine(ld, cfg)
	if err != nil {
		fmt.Println(err)
		return 2
	}
	defer e.Close()
	res := e.Run()
	hit := false
	for _, x := range res.Violations {
		fmt.Printf("FAILED assert=%s %s %s\n", x.AssertID, x.Pos, x.Msg)
		for _, t := range x.Trace {
			fmt.Println("   ", t)
		}
		if x.AssertID == doc.Assert {
			hit = true
		}
	}
	fmt.Println("paths:", res.Paths, "inconclusive:", res.Inconclusive, "reach:", res.Reach)
	if hit {
		fmt.Println("REPRODUCED (engine-concrete)")
		return 1
	}
	fmt.Println("NOT REPRODUCED (engine-concrete)")
	return 0
}

func runBudget(tier string) time.Duration {
	if v := os.Getenv("GOSYM_RUN_BUDGET_S"); v != "" {
		if n, err := strconv.Atoi(v); err == nil && n > 0 {
			return time.Duration(n) * time.Second
		}
	}
	if tier == "thorough" {
		return 40 * time.Minute
	}
	return 5 * time.Minute
}

// vacuousByBound: nothing reached the end of the harness, nothing was found,
// and paths were cut at the scheduling-point bound.
func vacuousByBound(r *RunResult) bool {
	if r == nil || r.Reach["end"] > 0 || r.Reach["outside-domain"] > 0 || len(r.Violations) > 0 || len(r.Inconclusive) > 0 {
		return false
	}
	return r.Stubs["schedule: path cut at the scheduling-point bound"] > 0
}

// scheduledTrace: the violation was found under the engine's scheduler (its
// event trace records thread switches).
func scheduledTrace(v *Violation) bool {
	for _, t := range v.Trace {
		if strings.HasPrefix(t, "switch ") {
			return true
		}
	}
	return false
}
