package main

import (
	"encoding/json"
	"flag"
	"fmt"
	"os"
	"strconv"
	"strings"
)

func usage() {
	fmt.Fprintln(os.Stderr, `usage:
  gosym run   -pkg ./bint -fn ZZ_x [-params 1,2] [-unwind n] [-v]     run one harness instance
  gosym check <property-id> [quick|thorough]                          run a registered property check
  gosym replay <file>                                                 replay a counterexample natively
  gosym list                                                          list registered checks`)
	os.Exit(2)
}

func main() {
	if len(os.Args) < 2 {
		usage()
	}
	switch os.Args[1] {
	case "run":
		cmdRun(os.Args[2:])
	case "check":
		os.Exit(cmdCheck(os.Args[2:]))
	case "replay":
		os.Exit(cmdReplay(os.Args[2:]))
	case "list":
		cmdList()
	default:
		usage()
	}
}

func parseInts(s string) []int {
	var out []int
	if s == "" {
		return nil
	}
	for _, p := range strings.Split(s, ",") {
		n, err := strconv.Atoi(strings.TrimSpace(p))
		if err != nil {
			fmt.Fprintln(os.Stderr, "bad int:", p)
			os.Exit(2)
		}
		out = append(out, n)
	}
	return out
}

func cmdRun(args []string) {
	fs := flag.NewFlagSet("run", flag.ExitOnError)
	pkg := fs.String("pkg", "", "package pattern relative to /repo, e.g. ./bint")
	fn := fs.String("fn", "", "harness function")
	params := fs.String("params", "", "comma separated int parameters")
	unwind := fs.Int("unwind", 64, "loop unwinding bound")
	maxPaths := fs.Int("maxpaths", 20000, "path budget")
	solver := fs.String("solver", defaultSolver(), "z3 | z3-new | cvc5")
	verbose := fs.Bool("v", false, "verbose")
	goOrder := fs.Int("goorder", 0, "errgroup order")
	flags := fs.String("flags", "", "comma separated harness flags")
	smtlog := fs.String("smtlog", "", "write solver input to file")
	fs.Parse(args)
	ld, err := Load(*pkg)
	if err != nil {
		fmt.Fprintln(os.Stderr, err)
		os.Exit(2)
	}
	cfg := RunConfig{Pkg: *pkg, Harness: *fn, Params: parseInts(*params), Unwind: *unwind, MaxPaths: *maxPaths, Solver: *solver, GoOrder: *goOrder, Flags: map[string]bool{}}
	for _, f := range strings.Split(*flags, ",") {
		if f != "" {
			cfg.Flags[f] = true
		}
	}
	e, err := NewEngine(ld, cfg)
	if err != nil {
		fmt.Fprintln(os.Stderr, err)
		os.Exit(2)
	}
	defer e.Close()
	if *smtlog != "" {
		f, _ := os.Create(*smtlog)
		defer f.Close()
		e.sol.log = f
	}
	res := e.Run()
	b, _ := json.MarshalIndent(res, "", " ")
	fmt.Println(string(b))
	if *verbose {
		fmt.Println("load_s:", ld.LoadS)
		fmt.Println("functions:")
		for _, k := range sortedKeys(res.Funcs) {
			fmt.Printf("  %6d %s\n", res.Funcs[k], k)
		}
		fmt.Println("stubs:")
		for _, k := range sortedKeys(res.Stubs) {
			fmt.Printf("  %6d %s\n", res.Stubs[k], k)
		}
	}
}

func defaultSolver() string {
	if s := os.Getenv("GOSYM_SOLVER"); s != "" {
		return s
	}
	return "z3-new"
}
