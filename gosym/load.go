package main

// Loading /repo (current working tree) plus harness overlays into SSA.

import (
	"fmt"
	"os"
	"path/filepath"
	"sort"
	"strings"
	"time"

	"golang.org/x/tools/go/packages"
	"golang.org/x/tools/go/ssa"
	"golang.org/x/tools/go/ssa/ssautil"
)

const repoMod = "github.com/indexsupply/shovel"

type Loaded struct {
	prog      *ssa.Program
	pkgs      []*packages.Package
	byPath    map[string]*ssa.Package
	extraInit map[string]bool
	LoadS     float64
	overlay   map[string][]byte
	redirects map[string]*ssa.Function
	redirectsDo map[string]*ssa.Function // library cuts that apply only inside the real (*Client).do
	repo      string
}

func repoDir() string {
	if d := os.Getenv("VERIF_REPO"); d != "" {
		return d
	}
	return "/repo"
}

func verifDir() string {
	if d := os.Getenv("VERIF_DIR"); d != "" {
		return d
	}
	return "/verif"
}

// buildOverlay maps every file under /verif/harness/<dir>/ to /repo/<dir>/zz_verif_<name>.
func buildOverlay(repo string) (map[string][]byte, error) {
	ov := map[string][]byte{}
	root := filepath.Join(verifDir(), "harness")
	err := filepath.Walk(root, func(p string, info os.FileInfo, err error) error {
		if err != nil {
			return err
		}
		if info.IsDir() || !strings.HasSuffix(p, ".go") {
			return nil
		}
		rel, _ := filepath.Rel(root, p)
		dir, base := filepath.Split(rel)
		b, err := os.ReadFile(p)
		if err != nil {
			return err
		}
		ov[filepath.Join(repo, dir, "zz_verif_"+base)] = b
		return nil
	})
	return ov, err
}

func Load(patterns ...string) (*Loaded, error) {
	t0 := time.Now()
	repo := repoDir()
	ov, err := buildOverlay(repo)
	if err == nil {
		for path, src := range engineOnly {
			ov[filepath.Join(repo, path)] = []byte(src)
		}
	}
	if err != nil {
		return nil, err
	}
	cfg := &packages.Config{
		Mode:    packages.LoadAllSyntax,
		Dir:     repo,
		Overlay: ov,
		Env:     append(os.Environ(), "GOFLAGS=-mod=mod", "GOPROXY=off", "GOSUMDB=off", "GOTOOLCHAIN=local"),
	}
	pkgs, err := packages.Load(cfg, patterns...)
	if err != nil {
		return nil, err
	}
	var errs []string
	packages.Visit(pkgs, nil, func(p *packages.Package) {
		for _, e := range p.Errors {
			errs = append(errs, e.Error())
		}
	})
	if len(errs) > 0 {
		sort.Strings(errs)
		if len(errs) > 10 {
			errs = errs[:10]
		}
		return nil, fmt.Errorf("load errors:\n%s", strings.Join(errs, "\n"))
	}
	prog, _ := ssautil.AllPackages(pkgs, ssa.InstantiateGenerics|ssa.BareInits)
	prog.Build()
	ld := &Loaded{prog: prog, pkgs: pkgs, byPath: map[string]*ssa.Package{}, extraInit: map[string]bool{}, overlay: ov, repo: repo, redirects: map[string]*ssa.Function{}, redirectsDo: map[string]*ssa.Function{}}
	for _, p := range prog.AllPackages() {
		ld.byPath[p.Pkg.Path()] = p
	}
	// cut points: calls of the key are redirected to a harness function
	for key, target := range redirectTable {
		if p := ld.byPath[target[0]]; p != nil {
			if f := p.Func(target[1]); f != nil {
				ld.redirects[key] = f
			}
		}
	}
	for key, target := range redirectTableDo {
		if p := ld.byPath[target[0]]; p != nil {
			if f := p.Func(target[1]); f != nil {
				ld.redirectsDo[key] = f
			}
		}
	}
	ld.LoadS = time.Since(t0).Seconds()
	return ld, nil
}

func (ld *Loaded) ssaPkg(path string) *ssa.Package {
	if p, ok := ld.byPath[path]; ok {
		return p
	}
	if p, ok := ld.byPath[repoMod+"/"+strings.TrimPrefix(path, "./")]; ok {
		return p
	}
	return nil
}

// redirectTable: environment cut points (DESIGN 3). key = SSA function name,
// value = (package path, harness function) with the receiver as first parameter.
var redirectTable = map[string][2]string{
	"(*" + repoMod + "/jrpc2.Client).do":                  {repoMod + "/jrpc2", "zzDo"},
	"(*github.com/jackc/pgx/v5/pgxpool.Pool).Begin":       {repoMod + "/shovel", "zzPoolBegin"},
	"(*github.com/jackc/pgx/v5/pgxpool.Pool).Exec":        {repoMod + "/shovel", "zzPoolExec"},
	"(*" + repoMod + "/jrpc2.URL).String":                 {repoMod + "/jrpc2", "zzURLString"},
	"(*" + repoMod + "/jrpc2.URL).Hostname":               {repoMod + "/jrpc2", "zzURLHostname"},
	"(*" + repoMod + "/jrpc2.Client).httpPoll":            {repoMod + "/jrpc2", "zzNoPoll"},
	"(*" + repoMod + "/jrpc2.Client).wsListen":            {repoMod + "/jrpc2", "zzNoListen"},
	repoMod + "/jrpc2.MustURL":                            {repoMod + "/jrpc2", "zzMustURL"},
	repoMod + "/shovel/config.Integrations":               {repoMod + "/shovel/config", "zzDBIntegrations"},
	repoMod + "/shovel/config.Sources":                    {repoMod + "/shovel/config", "zzDBSources"},
	"github.com/jackc/pgx/v5.CollectRows":                 {repoMod + "/wpg", "zzCollectRows"},
	"github.com/kr/session.Get":                           {repoMod + "/shovel/web", "zzSessionGet"},
	"github.com/kr/session.Decode":                        {repoMod + "/shovel/web", "zzSessionDecode"},
	"(*net/http.Request).Cookie":                          {repoMod + "/shovel/web", "zzCookieOf"},
	"github.com/kr/session.Set":                           {repoMod + "/shovel/web", "zzSessionSet"},
	"net/http.Redirect":                                   {repoMod + "/shovel/web", "zzRedirect"},
	"net/http.Error":                                      {repoMod + "/shovel/web", "zzHTTPError"},
	"(*net/http.Request).ParseForm":                       {repoMod + "/shovel/web", "zzParseForm"},
	"(*net/http.Request).FormValue":                       {repoMod + "/shovel/web", "zzFormValue"},
	"net.SplitHostPort":                                   {repoMod + "/shovel/web", "zzSplitHostPort"},
	"net.ParseIP":                                         {repoMod + "/shovel/web", "zzParseIP"},
	"(net.IP).IsLoopback":                                 {repoMod + "/shovel/web", "zzIPIsLoopback"},
	"filippo.io/age.GenerateX25519Identity":               {repoMod + "/shovel/web", "zzAgeIdentity"},
	"(*" + repoMod + "/shovel/web.Handler).template":      {repoMod + "/shovel/web", "zzTemplate"},
}

// engineOnly: files that exist only in the engine's overlay. zzRealDo is the
// door to the uncut (*Client).do: the engine does not redirect a call of do
// made from zzRealDo, and applies redirectTableDo (the library calls inside
// do) while it runs. Natively the cut renames the original to zzOrigDo and the
// wrapper file defines zzRealDo accordingly.
var engineOnly = map[string]string{
	"jrpc2/zz_engine_only.go": `package jrpc2

import "context"

func zzRealDo(c *Client, ctx context.Context, url string, dest, req any) error {
	return c.do(ctx, url, dest, req)
}
`,
}

const doKey = "(*" + repoMod + "/jrpc2.Client).do"

var redirectTableDo = map[string][2]string{
	"io.Pipe":                         {repoMod + "/jrpc2", "zzPipe"},
	"(*io.PipeWriter).Close":          {repoMod + "/jrpc2", "zzPipeWClose"},
	"github.com/goccy/go-json.NewEncoder":         {repoMod + "/jrpc2", "zzNewEncoder"},
	"(*github.com/goccy/go-json.Encoder).Encode":  {repoMod + "/jrpc2", "zzEncode"},
	"net/http.NewRequest":             {repoMod + "/jrpc2", "zzNewRequest"},
	"(net/http.Header).Add":           {repoMod + "/jrpc2", "zzHeaderAdd"},
	"(*net/http.Client).Do":           {repoMod + "/jrpc2", "zzClientDo"},
	"io.ReadAll":                      {repoMod + "/jrpc2", "zzReadAll"},
	"github.com/goccy/go-json.NewDecoder":         {repoMod + "/jrpc2", "zzNewDecoder"},
	"(*github.com/goccy/go-json.Decoder).Decode":  {repoMod + "/jrpc2", "zzDecode"},
}

// nativeCuts: how the same cut points are applied for native replay. The
// repo file is rewritten mechanically at replay time (from the current
// working tree): the original method is renamed and a forwarding wrapper to
// the harness function is added.
type nativeCut struct {
	Pkg     string // package dir relative to the repo
	File    string // file relative to the repo
	Old     string // exact text to find
	New     string // replacement
	Wrapper string // Go source appended as an extra file of that package
	All     bool   // replace every occurrence
	Repl    [][2]string // further (old, new) pairs applied to the same file (all occurrences)
	Append  string      // appended to the rewritten file (keeps imports used)
}

var nativeCuts = []nativeCut{
	{
		Pkg:  "wpg",
		File: "wpg/pg.go",
		Old:  "pgx.CollectRows(rows, pgx.RowToStructByName[Column])",
		New:  "zzCollectRows(rows, nil)",
	},
	{
		Pkg:  "shovel/web",
		File: "shovel/web/web.go",
		Old:  "session.Get(",
		New:  "zzSessionGet(",
		All:  true,
		Repl: [][2]string{
			{"session.Set(", "zzSessionSet("},
			{"session.Decode(", "zzSessionDecode("},
			{"r.Cookie(", "zzCookieOf(r, "},
			{"http.Redirect(", "zzRedirect("},
			{"http.Error(", "zzHTTPError("},
			{"r.ParseForm()", "zzParseForm(r)"},
			{"r.FormValue(\"password\")", "zzFormValue(r, \"password\")"},
			{"net.SplitHostPort(", "zzSplitHostPort("},
			{"net.ParseIP(host).IsLoopback()", "zzIsLoopbackHost(host)"},
			{"h.template(isLoopback(r), \"login\")", "zzTemplate(h, isLoopback(r), \"login\")"},
			{"age.GenerateX25519Identity()", "zzAgeIdentity()"},
			{"h.pgp.Exec(", "zzWebExec(h.pgp, "},
		},
		Append: "\nvar _ = age.GenerateX25519Identity\nvar _ = session.Get\nvar _ = net.ParseIP\nvar _ = http.Redirect\n",
	},
	{
		Pkg:  "shovel",
		File: "shovel/task.go",
		Old:  "task.pgp.Begin(ctx)",
		New:  "zzPoolBegin(task.pgp, ctx)",
		All:  true,
		Repl: [][2]string{{"t.pgp.Exec(t.ctx, fmt.Sprintf(", "zzPoolExec(t.pgp, t.ctx, fmt.Sprintf("}},
	},
	{
		Pkg:  "shovel/config",
		File: "shovel/config/config.go",
		Old:  "func Integrations(ctx context.Context, pg wpg.Conn) ([]Integration, error) {",
		New:  "func zzOrigIntegrations(ctx context.Context, pg wpg.Conn) ([]Integration, error) {",
		Repl: [][2]string{{"func Sources(ctx context.Context, pgp *pgxpool.Pool) ([]Source, error) {", "func zzOrigSources(ctx context.Context, pgp *pgxpool.Pool) ([]Source, error) {"}},
		Wrapper: `package config

import (
	"context"

	"github.com/indexsupply/shovel/wpg"
	"github.com/jackc/pgx/v5/pgxpool"
)

func Integrations(ctx context.Context, pg wpg.Conn) ([]Integration, error) { return zzDBIntegrations(ctx, pg) }
func Sources(ctx context.Context, pgp *pgxpool.Pool) ([]Source, error)    { return zzDBSources(ctx, pgp) }
`,
	},
	{
		Pkg:  "jrpc2",
		File: "jrpc2/client.go",
		Old:  "func (c *Client) do(ctx context.Context, url string, dest, req any) error {",
		New:  "func (c *Client) zzOrigDo(ctx context.Context, url string, dest, req any) error {",
		Wrapper: `package jrpc2

import "context"

func (c *Client) do(ctx context.Context, url string, dest, req any) error {
	return zzDo(c, ctx, url, dest, req)
}

func zzRealDo(c *Client, ctx context.Context, url string, dest, req any) error {
	return c.zzOrigDo(ctx, url, dest, req)
}
`,
	},
}
