package main

// Hash-consed SMT term DAG with eager simplification and SMT-LIB2 printing.
// Sorts: Bool, (_ BitVec w), (Array (_ BitVec 64) (_ BitVec 8)).

import (
	"fmt"
	"math/big"
	"strings"
)

type Op uint8

const (
	OpConst Op = iota // bv const
	OpBool            // bool const (lo = 0/1)
	OpVar             // bv/bool/array var (name)
	OpNot             // bool not
	OpAnd             // bool and
	OpOr              // bool or
	OpEq              // any sort -> bool
	OpIte             // any sort
	OpAdd
	OpSub
	OpMul
	OpUDiv
	OpURem
	OpSDiv
	OpSRem
	OpBAnd
	OpBOr
	OpBXor
	OpBNot
	OpNeg
	OpShl
	OpLShr
	OpAShr
	OpConcat
	OpExtract // p1=hi p2=lo
	OpZExt    // to width w
	OpSExt
	OpUlt
	OpUle
	OpSlt
	OpSle
	OpSelect   // array, idx -> bv8
	OpStore    // array, idx, val -> array
	OpArrConst // literal byte array (bytes), default 0 elsewhere
	OpApp      // uninterpreted function name(args) -> sort
	OpArrSplit // args a,b; lo=n: index < n reads a, else b (never emitted; eliminated at Select)
)

type SortKind uint8

const (
	SBool SortKind = iota
	SBV
	SArr
)

type Term struct {
	id   int
	op   Op
	kind SortKind
	w    int // bit width for SBV
	args []*Term
	lo   uint64   // const value (w<=64) or bool
	big  *big.Int // const value (w>64)
	name string
	data []byte // OpArrConst
	p1   int
	p2   int
	sym  bool // contains a variable / UF (not a pure constant tree)
}

func (t *Term) IsConst() bool { return t.op == OpConst || t.op == OpBool }

type tkey struct {
	op         Op
	kind       SortKind
	w          int
	a0, a1, a2 int
	lo         uint64
	p1, p2     int
	name       string
}

type TermTable struct {
	terms  []*Term
	index  map[tkey]*Term
	bigs   map[string]*Term
	arrs   map[string]*Term
	apps   map[string]*Term
	vars   map[string]*Term
	True   *Term
	False  *Term
	nfresh int
}

func NewTermTable() *TermTable {
	tt := &TermTable{
		index: map[tkey]*Term{},
		bigs:  map[string]*Term{},
		arrs:  map[string]*Term{},
		apps:  map[string]*Term{},
		vars:  map[string]*Term{},
	}
	tt.True = tt.mk(tkey{op: OpBool, kind: SBool, lo: 1}, nil)
	tt.False = tt.mk(tkey{op: OpBool, kind: SBool, lo: 0}, nil)
	return tt
}

func (tt *TermTable) mk(k tkey, args []*Term) *Term {
	if len(args) > 0 {
		k.a0 = args[0].id + 1
	}
	if len(args) > 1 {
		k.a1 = args[1].id + 1
	}
	if len(args) > 2 {
		k.a2 = args[2].id + 1
	}
	if t, ok := tt.index[k]; ok {
		return t
	}
	t := &Term{id: len(tt.terms), op: k.op, kind: k.kind, w: k.w, args: args, lo: k.lo, p1: k.p1, p2: k.p2, name: k.name}
	for _, a := range args {
		if a.sym {
			t.sym = true
		}
	}
	if k.op == OpVar {
		t.sym = true
	}
	tt.terms = append(tt.terms, t)
	tt.index[k] = t
	return t
}

func mask(w int) uint64 {
	if w >= 64 {
		return ^uint64(0)
	}
	return (uint64(1) << uint(w)) - 1
}

func bigMask(w int) *big.Int {
	m := new(big.Int).Lsh(big.NewInt(1), uint(w))
	return m.Sub(m, big.NewInt(1))
}

func (tt *TermTable) Bool(b bool) *Term {
	if b {
		return tt.True
	}
	return tt.False
}

func (tt *TermTable) Const(w int, v uint64) *Term {
	if w > 64 {
		return tt.BigConst(w, new(big.Int).SetUint64(v))
	}
	return tt.mk(tkey{op: OpConst, kind: SBV, w: w, lo: v & mask(w)}, nil)
}

func (tt *TermTable) BigConst(w int, v *big.Int) *Term {
	v = new(big.Int).And(v, bigMask(w))
	if w <= 64 {
		return tt.Const(w, v.Uint64())
	}
	key := fmt.Sprintf("%d:%s", w, v.Text(16))
	if t, ok := tt.bigs[key]; ok {
		return t
	}
	t := &Term{id: len(tt.terms), op: OpConst, kind: SBV, w: w, big: v}
	tt.terms = append(tt.terms, t)
	tt.bigs[key] = t
	return t
}

// value of a constant as big.Int (unsigned)
func (t *Term) Big() *big.Int {
	if t.big != nil {
		return t.big
	}
	return new(big.Int).SetUint64(t.lo)
}

func (tt *TermTable) Var(name string, kind SortKind, w int) *Term {
	if t, ok := tt.vars[name]; ok {
		if t.kind != kind || t.w != w {
			panic(fmt.Sprintf("var %s redeclared with different sort", name))
		}
		return t
	}
	t := tt.mk(tkey{op: OpVar, kind: kind, w: w, name: name}, nil)
	tt.vars[name] = t
	return t
}

func (tt *TermTable) Fresh(prefix string, kind SortKind, w int) *Term {
	tt.nfresh++
	return tt.Var(fmt.Sprintf("%s!%d", prefix, tt.nfresh), kind, w)
}

func (tt *TermTable) ArrConst(data []byte) *Term {
	key := string(data)
	if t, ok := tt.arrs[key]; ok {
		return t
	}
	t := &Term{id: len(tt.terms), op: OpArrConst, kind: SArr, data: append([]byte(nil), data...)}
	tt.terms = append(tt.terms, t)
	tt.arrs[key] = t
	return t
}

func (tt *TermTable) App(name string, kind SortKind, w int, args ...*Term) *Term {
	var sb strings.Builder
	fmt.Fprintf(&sb, "%s/%d/%d", name, kind, w)
	for _, a := range args {
		fmt.Fprintf(&sb, ",%d", a.id)
	}
	key := sb.String()
	if t, ok := tt.apps[key]; ok {
		return t
	}
	t := &Term{id: len(tt.terms), op: OpApp, kind: kind, w: w, name: name, args: args, sym: true}
	tt.terms = append(tt.terms, t)
	tt.apps[key] = t
	return t
}

// ---------- boolean ----------

func (tt *TermTable) Not(a *Term) *Term {
	if a.op == OpBool {
		return tt.Bool(a.lo == 0)
	}
	if a.op == OpNot {
		return a.args[0]
	}
	return tt.mk(tkey{op: OpNot, kind: SBool}, []*Term{a})
}

func (tt *TermTable) And(a, b *Term) *Term {
	if a.op == OpBool {
		if a.lo == 0 {
			return tt.False
		}
		return b
	}
	if b.op == OpBool {
		if b.lo == 0 {
			return tt.False
		}
		return a
	}
	if a == b {
		return a
	}
	if a.id > b.id {
		a, b = b, a
	}
	return tt.mk(tkey{op: OpAnd, kind: SBool}, []*Term{a, b})
}

func (tt *TermTable) Or(a, b *Term) *Term {
	if a.op == OpBool {
		if a.lo == 1 {
			return tt.True
		}
		return b
	}
	if b.op == OpBool {
		if b.lo == 1 {
			return tt.True
		}
		return a
	}
	if a == b {
		return a
	}
	if a.id > b.id {
		a, b = b, a
	}
	return tt.mk(tkey{op: OpOr, kind: SBool}, []*Term{a, b})
}

func (tt *TermTable) Implies(a, b *Term) *Term { return tt.Or(tt.Not(a), b) }

func (tt *TermTable) Eq(a, b *Term) *Term {
	if a == b {
		return tt.True
	}
	if a.kind != b.kind || (a.kind == SBV && a.w != b.w) {
		panic(fmt.Sprintf("Eq sort mismatch %v/%d vs %v/%d", a.kind, a.w, b.kind, b.w))
	}
	if a.IsConst() && b.IsConst() {
		if a.kind == SBool {
			return tt.Bool(a.lo == b.lo)
		}
		return tt.Bool(a.Big().Cmp(b.Big()) == 0)
	}
	if a.kind == SBool {
		if a.op == OpBool {
			if a.lo == 1 {
				return b
			}
			return tt.Not(b)
		}
		if b.op == OpBool {
			if b.lo == 1 {
				return a
			}
			return tt.Not(a)
		}
	}
	// zext(x) == const -> x == const' or false
	if a.op == OpZExt && b.op == OpConst {
		a, b = b, a
	}
	if b.op == OpZExt && a.op == OpConst {
		inner := b.args[0]
		v := a.Big()
		if v.BitLen() > inner.w {
			return tt.False
		}
		return tt.Eq(inner, tt.BigConst(inner.w, v))
	}
	if a.id > b.id {
		a, b = b, a
	}
	return tt.mk(tkey{op: OpEq, kind: SBool}, []*Term{a, b})
}

func (tt *TermTable) Ite(c, a, b *Term) *Term {
	if c.op == OpBool {
		if c.lo == 1 {
			return a
		}
		return b
	}
	if a == b {
		return a
	}
	if a.kind == SBool {
		if a.op == OpBool && b.op == OpBool {
			if a.lo == 1 {
				return c
			}
			return tt.Not(c)
		}
	}
	return tt.mk(tkey{op: OpIte, kind: a.kind, w: a.w}, []*Term{c, a, b})
}

// ---------- bit-vector ----------

func (tt *TermTable) binConst(op Op, a, b *Term) *Term {
	w := a.w
	if w <= 64 {
		x, y := a.lo, b.lo
		m := mask(w)
		sx := func(v uint64) int64 { // sign extend
			if w < 64 && v&(1<<uint(w-1)) != 0 {
				return int64(v | ^m)
			}
			return int64(v)
		}
		switch op {
		case OpAdd:
			return tt.Const(w, x+y)
		case OpSub:
			return tt.Const(w, x-y)
		case OpMul:
			return tt.Const(w, x*y)
		case OpUDiv:
			if y == 0 {
				return tt.Const(w, m)
			}
			return tt.Const(w, x/y)
		case OpURem:
			if y == 0 {
				return tt.Const(w, x)
			}
			return tt.Const(w, x%y)
		case OpSDiv:
			if y == 0 {
				if sx(x) < 0 {
					return tt.Const(w, 1)
				}
				return tt.Const(w, m)
			}
			if sx(x) == -1<<63 && sx(y) == -1 {
				return tt.Const(w, x)
			}
			return tt.Const(w, uint64(sx(x)/sx(y)))
		case OpSRem:
			if y == 0 {
				return tt.Const(w, x)
			}
			if sx(y) == -1 {
				return tt.Const(w, 0)
			}
			return tt.Const(w, uint64(sx(x)%sx(y)))
		case OpBAnd:
			return tt.Const(w, x&y)
		case OpBOr:
			return tt.Const(w, x|y)
		case OpBXor:
			return tt.Const(w, x^y)
		case OpShl:
			if y >= uint64(w) {
				return tt.Const(w, 0)
			}
			return tt.Const(w, x<<y)
		case OpLShr:
			if y >= uint64(w) {
				return tt.Const(w, 0)
			}
			return tt.Const(w, x>>y)
		case OpAShr:
			if y >= uint64(w) {
				if sx(x) < 0 {
					return tt.Const(w, m)
				}
				return tt.Const(w, 0)
			}
			return tt.Const(w, uint64(sx(x)>>y))
		case OpUlt:
			return tt.Bool(x < y)
		case OpUle:
			return tt.Bool(x <= y)
		case OpSlt:
			return tt.Bool(sx(x) < sx(y))
		case OpSle:
			return tt.Bool(sx(x) <= sx(y))
		}
		panic("binConst op")
	}
	x, y := a.Big(), b.Big()
	sg := func(v *big.Int) *big.Int {
		if v.Bit(w-1) == 1 {
			return new(big.Int).Sub(v, new(big.Int).Lsh(big.NewInt(1), uint(w)))
		}
		return v
	}
	r := new(big.Int)
	switch op {
	case OpAdd:
		return tt.BigConst(w, r.Add(x, y))
	case OpSub:
		return tt.BigConst(w, r.Sub(x, y))
	case OpMul:
		return tt.BigConst(w, r.Mul(x, y))
	case OpUDiv:
		if y.Sign() == 0 {
			return tt.BigConst(w, bigMask(w))
		}
		return tt.BigConst(w, r.Div(x, y))
	case OpURem:
		if y.Sign() == 0 {
			return a
		}
		return tt.BigConst(w, r.Mod(x, y))
	case OpBAnd:
		return tt.BigConst(w, r.And(x, y))
	case OpBOr:
		return tt.BigConst(w, r.Or(x, y))
	case OpBXor:
		return tt.BigConst(w, r.Xor(x, y))
	case OpShl:
		if y.Cmp(big.NewInt(int64(w))) >= 0 {
			return tt.Const(w, 0)
		}
		return tt.BigConst(w, r.Lsh(x, uint(y.Uint64())))
	case OpLShr:
		if y.Cmp(big.NewInt(int64(w))) >= 0 {
			return tt.Const(w, 0)
		}
		return tt.BigConst(w, r.Rsh(x, uint(y.Uint64())))
	case OpUlt:
		return tt.Bool(x.Cmp(y) < 0)
	case OpUle:
		return tt.Bool(x.Cmp(y) <= 0)
	case OpSlt:
		return tt.Bool(sg(x).Cmp(sg(y)) < 0)
	case OpSle:
		return tt.Bool(sg(x).Cmp(sg(y)) <= 0)
	}
	return nil
}

func isZero(t *Term) bool { return t.op == OpConst && t.big == nil && t.lo == 0 }
func isOne(t *Term) bool  { return t.op == OpConst && t.big == nil && t.lo == 1 }
func isOnes(t *Term) bool {
	return t.op == OpConst && t.big == nil && t.w <= 64 && t.lo == mask(t.w)
}

func (tt *TermTable) Bin(op Op, a, b *Term) *Term {
	if a.kind != SBV || b.kind != SBV || a.w != b.w {
		panic(fmt.Sprintf("Bin %d sort mismatch: %d/%d vs %d/%d", op, a.kind, a.w, b.kind, b.w))
	}
	if a.op == OpConst && b.op == OpConst {
		if r := tt.binConst(op, a, b); r != nil {
			return r
		}
	}
	cmp := false
	switch op {
	case OpAdd:
		if isZero(a) {
			return b
		}
		if isZero(b) {
			return a
		}
		if a.op == OpConst && b.op != OpConst {
			a, b = b, a
		}
		// (x + c1) + c2 -> x + (c1+c2)
		if b.op == OpConst && a.op == OpAdd && a.args[1].op == OpConst {
			return tt.Bin(OpAdd, a.args[0], tt.Bin(OpAdd, a.args[1], b))
		}
		// (x << k) + zext(y) with width(y) <= k  ==>  concat(x[w-k-1:0], zext_k(y))
		for pass := 0; pass < 2; pass++ {
			if a.op == OpShl && a.args[1].op == OpConst && b.op == OpZExt {
				k := int(a.args[1].lo)
				if k > 0 && k < a.w && b.args[0].w <= k {
					return tt.Concat(tt.Extract(a.args[0], a.w-k-1, 0), tt.ZExt(b.args[0], k))
				}
			}
			a, b = b, a
		}
	case OpSub:
		if isZero(b) {
			return a
		}
		if a == b {
			return tt.Const(a.w, 0)
		}
		if b.op == OpConst {
			// x - c -> x + (-c)
			return tt.Bin(OpAdd, a, tt.Bin(OpSub, tt.Const(a.w, 0), b))
		}
		// (x + c) - x -> c
		if a.op == OpAdd && a.args[0] == b {
			return a.args[1]
		}
	case OpMul:
		if isZero(a) || isZero(b) {
			return tt.Const(a.w, 0)
		}
		if isOne(a) {
			return b
		}
		if isOne(b) {
			return a
		}
	case OpUDiv:
		if isOne(b) {
			return a
		}
	case OpBAnd:
		if isZero(a) || isZero(b) {
			return tt.Const(a.w, 0)
		}
		if isOnes(a) {
			return b
		}
		if isOnes(b) {
			return a
		}
		if a == b {
			return a
		}
	case OpBOr:
		if isZero(a) {
			return b
		}
		if isZero(b) {
			return a
		}
		if a == b {
			return a
		}
		for pass := 0; pass < 2; pass++ {
			if a.op == OpShl && a.args[1].op == OpConst && b.op == OpZExt {
				k := int(a.args[1].lo)
				if k > 0 && k < a.w && b.args[0].w <= k {
					return tt.Concat(tt.Extract(a.args[0], a.w-k-1, 0), tt.ZExt(b.args[0], k))
				}
			}
			a, b = b, a
		}
	case OpBXor:
		if isZero(a) {
			return b
		}
		if isZero(b) {
			return a
		}
		if a == b {
			return tt.Const(a.w, 0)
		}
	case OpShl, OpLShr, OpAShr:
		if isZero(b) {
			return a
		}
	case OpUlt:
		cmp = true
		if a == b || isZero(b) {
			return tt.False
		}
	case OpUle:
		cmp = true
		if a == b || isZero(a) {
			return tt.True
		}
	case OpSlt:
		cmp = true
		if a == b {
			return tt.False
		}
	case OpSle:
		cmp = true
		if a == b {
			return tt.True
		}
	}
	if cmp {
		// zext(x) <op> const, with const fitting: compare at narrow width
		if (op == OpUlt || op == OpUle) && a.op == OpZExt && b.op == OpConst {
			inner := a.args[0]
			if b.Big().BitLen() <= inner.w {
				return tt.Bin(op, inner, tt.BigConst(inner.w, b.Big()))
			}
			return tt.True
		}
		if (op == OpUlt || op == OpUle) && b.op == OpZExt && a.op == OpConst {
			inner := b.args[0]
			if a.Big().BitLen() <= inner.w {
				return tt.Bin(op, tt.BigConst(inner.w, a.Big()), inner)
			}
			return tt.False
		}
		return tt.mk(tkey{op: op, kind: SBool}, []*Term{a, b})
	}
	return tt.mk(tkey{op: op, kind: SBV, w: a.w}, []*Term{a, b})
}

func (tt *TermTable) BNot(a *Term) *Term {
	if a.op == OpConst {
		if a.w <= 64 {
			return tt.Const(a.w, ^a.lo)
		}
		return tt.BigConst(a.w, new(big.Int).Xor(a.Big(), bigMask(a.w)))
	}
	if a.op == OpBNot {
		return a.args[0]
	}
	return tt.mk(tkey{op: OpBNot, kind: SBV, w: a.w}, []*Term{a})
}

func (tt *TermTable) Neg(a *Term) *Term {
	return tt.Bin(OpSub, tt.Const(a.w, 0), a)
}

func (tt *TermTable) Extract(a *Term, hi, lo int) *Term {
	if lo == 0 && hi == a.w-1 {
		return a
	}
	w := hi - lo + 1
	if a.op == OpConst {
		return tt.BigConst(w, new(big.Int).Rsh(a.Big(), uint(lo)))
	}
	if a.op == OpZExt || a.op == OpSExt {
		inner := a.args[0]
		if hi < inner.w {
			return tt.Extract(inner, hi, lo)
		}
		if a.op == OpZExt && lo >= inner.w {
			return tt.Const(w, 0)
		}
	}
	if a.op == OpExtract {
		return tt.Extract(a.args[0], hi+a.p2, lo+a.p2)
	}
	if a.op == OpConcat {
		lw := a.args[1].w
		if hi < lw {
			return tt.Extract(a.args[1], hi, lo)
		}
		if lo >= lw {
			return tt.Extract(a.args[0], hi-lw, lo-lw)
		}
		return tt.Concat(tt.Extract(a.args[0], hi-lw, 0), tt.Extract(a.args[1], lw-1, lo))
	}
	return tt.mk(tkey{op: OpExtract, kind: SBV, w: w, p1: hi, p2: lo}, []*Term{a})
}

func (tt *TermTable) ZExt(a *Term, w int) *Term {
	if w == a.w {
		return a
	}
	if w < a.w {
		return tt.Extract(a, w-1, 0)
	}
	if a.op == OpConst {
		return tt.BigConst(w, a.Big())
	}
	if a.op == OpZExt {
		return tt.ZExt(a.args[0], w)
	}
	return tt.mk(tkey{op: OpZExt, kind: SBV, w: w}, []*Term{a})
}

func (tt *TermTable) SExt(a *Term, w int) *Term {
	if w == a.w {
		return a
	}
	if w < a.w {
		return tt.Extract(a, w-1, 0)
	}
	if a.op == OpConst {
		v := a.Big()
		if v.Bit(a.w-1) == 1 {
			v = new(big.Int).Sub(v, new(big.Int).Lsh(big.NewInt(1), uint(a.w)))
		}
		return tt.BigConst(w, v)
	}
	if a.op == OpZExt {
		return tt.ZExt(a.args[0], w)
	}
	return tt.mk(tkey{op: OpSExt, kind: SBV, w: w}, []*Term{a})
}

func (tt *TermTable) Concat(hi, lo *Term) *Term {
	if hi.op == OpConst && lo.op == OpConst {
		v := new(big.Int).Lsh(hi.Big(), uint(lo.w))
		v.Or(v, lo.Big())
		return tt.BigConst(hi.w+lo.w, v)
	}
	if isZero(hi) {
		return tt.ZExt(lo, hi.w+lo.w)
	}
	return tt.mk(tkey{op: OpConcat, kind: SBV, w: hi.w + lo.w}, []*Term{hi, lo})
}

// ---------- arrays (BV64 -> BV8) ----------

func (tt *TermTable) ArrSplit(n uint64, a, b *Term) *Term {
	return tt.mk(tkey{op: OpArrSplit, kind: SArr, lo: n}, []*Term{a, b})
}

func (tt *TermTable) Select(arr, idx *Term) *Term {
	if arr.kind != SArr || idx.kind != SBV || idx.w != 64 {
		panic("Select sorts")
	}
	for {
		switch arr.op {
		case OpArrSplit:
			return tt.Ite(tt.Bin(OpUlt, idx, tt.Const(64, arr.lo)), tt.Select(arr.args[0], idx), tt.Select(arr.args[1], idx))
		case OpArrConst:
			if idx.op == OpConst {
				if idx.lo < uint64(len(arr.data)) {
					return tt.Const(8, uint64(arr.data[idx.lo]))
				}
				return tt.Const(8, 0)
			}
			if len(arr.data) == 0 {
				return tt.Const(8, 0)
			}
			if len(arr.data) <= 1024 {
				return tt.tableLookup(arr.data, idx)
			}
		case OpStore:
			si := arr.args[1]
			if si == idx {
				return arr.args[2]
			}
			if si.op == OpConst && idx.op == OpConst {
				arr = arr.args[0]
				continue
			}
			// x+c1 vs x+c2 with different constants are distinct
			if d, ok := tt.distinctOffsets(si, idx); ok && d {
				arr = arr.args[0]
				continue
			}
		case OpIte:
			if idx.op == OpConst {
				a := tt.Select(arr.args[1], idx)
				b := tt.Select(arr.args[2], idx)
				return tt.Ite(arr.args[0], a, b)
			}
		}
		break
	}
	return tt.mk(tkey{op: OpSelect, kind: SBV, w: 8}, []*Term{arr, idx})
}

// tableLookup encodes data[idx] (0 outside the table) as a balanced ite tree
// over the index bits; uniform sub-ranges collapse to constants. This keeps
// constant-table lookups (hex tables) in pure bit-vector logic.
func (tt *TermTable) tableLookup(data []byte, idx *Term) *Term {
	nbits := 0
	for (1 << uint(nbits)) < len(data) {
		nbits++
	}
	get := func(i int) byte {
		if i < len(data) {
			return data[i]
		}
		return 0
	}
	var build func(lo, bits int) *Term
	build = func(lo, bits int) *Term {
		uniform := true
		v0 := get(lo)
		for i := lo; i < lo+(1<<uint(bits)); i++ {
			if get(i) != v0 {
				uniform = false
				break
			}
		}
		if uniform {
			return tt.Const(8, uint64(v0))
		}
		b := tt.Extract(idx, bits-1, bits-1)
		hi := build(lo+(1<<uint(bits-1)), bits-1)
		lw := build(lo, bits-1)
		return tt.Ite(tt.Eq(b, tt.Const(1, 1)), hi, lw)
	}
	tree := build(0, nbits)
	if nbits >= 64 {
		return tree
	}
	inRange := tt.Bin(OpUlt, idx, tt.Const(64, uint64(1)<<uint(nbits)))
	return tt.Ite(inRange, tree, tt.Const(8, 0))
}

// reports (distinct, known) for indices of the form base+const
func (tt *TermTable) distinctOffsets(a, b *Term) (bool, bool) {
	ba, ca := splitOff(a)
	bb, cb := splitOff(b)
	if ba == bb && ca != cb {
		return true, true
	}
	return false, false
}

func splitOff(t *Term) (*Term, uint64) {
	if t.op == OpAdd && t.args[1].op == OpConst {
		return t.args[0], t.args[1].lo
	}
	if t.op == OpConst {
		return nil, t.lo
	}
	return t, 0
}

func (tt *TermTable) Store(arr, idx, val *Term) *Term {
	if arr.kind != SArr || idx.w != 64 || val.w != 8 {
		panic("Store sorts")
	}
	// store into literal at concrete index with concrete value stays literal
	if arr.op == OpArrConst && idx.op == OpConst && val.op == OpConst && idx.lo < 1<<16 {
		n := len(arr.data)
		if int(idx.lo) >= n {
			n = int(idx.lo) + 1
		}
		d := make([]byte, n)
		copy(d, arr.data)
		d[idx.lo] = byte(val.lo)
		return tt.ArrConst(d)
	}
	if arr.op == OpStore && arr.args[1] == idx {
		arr = arr.args[0]
	}
	return tt.mk(tkey{op: OpStore, kind: SArr}, []*Term{arr, idx, val})
}

// ---------- printing ----------

func (t *Term) sortString() string {
	switch t.kind {
	case SBool:
		return "Bool"
	case SBV:
		return fmt.Sprintf("(_ BitVec %d)", t.w)
	default:
		return "(Array (_ BitVec 64) (_ BitVec 8))"
	}
}

func bvLit(w int, v *big.Int) string {
	if w%4 == 0 {
		s := v.Text(16)
		if len(s) < w/4 {
			s = strings.Repeat("0", w/4-len(s)) + s
		}
		return "#x" + s
	}
	s := v.Text(2)
	if len(s) < w {
		s = strings.Repeat("0", w-len(s)) + s
	}
	return "#b" + s
}

var opNames = map[Op]string{
	OpNot: "not", OpAnd: "and", OpOr: "or", OpEq: "=", OpIte: "ite",
	OpAdd: "bvadd", OpSub: "bvsub", OpMul: "bvmul", OpUDiv: "bvudiv", OpURem: "bvurem",
	OpSDiv: "bvsdiv", OpSRem: "bvsrem", OpBAnd: "bvand", OpBOr: "bvor", OpBXor: "bvxor",
	OpBNot: "bvnot", OpNeg: "bvneg", OpShl: "bvshl", OpLShr: "bvlshr", OpAShr: "bvashr",
	OpConcat: "concat", OpUlt: "bvult", OpUle: "bvule", OpSlt: "bvslt", OpSle: "bvsle",
	OpSelect: "select", OpStore: "store",
}

func smtName(s string) string {
	ok := true
	for _, c := range s {
		if !(c >= 'a' && c <= 'z' || c >= 'A' && c <= 'Z' || c >= '0' && c <= '9' || c == '_' || c == '.' || c == '!' || c == '-') {
			ok = false
		}
	}
	if ok && len(s) > 0 {
		return s
	}
	return "|" + strings.ReplaceAll(strings.ReplaceAll(s, "|", "_"), "\\", "_") + "|"
}

// ref returns how term t is referred to inside another expression.
func (t *Term) ref() string {
	switch t.op {
	case OpConst:
		return bvLit(t.w, t.Big())
	case OpBool:
		if t.lo == 1 {
			return "true"
		}
		return "false"
	case OpVar:
		return smtName(t.name)
	}
	return fmt.Sprintf("t%d", t.id)
}

// Emit writes the definitions of t and all sub-terms not yet in done.
func (tt *TermTable) Emit(t *Term, done map[int]bool, declaredUF map[string]bool, out *strings.Builder) {
	if done[t.id] {
		return
	}
	// iterative post-order
	type fr struct {
		t *Term
		i int
	}
	stack := []fr{{t, 0}}
	for len(stack) > 0 {
		f := &stack[len(stack)-1]
		if done[f.t.id] {
			stack = stack[:len(stack)-1]
			continue
		}
		if f.i < len(f.t.args) {
			a := f.t.args[f.i]
			f.i++
			if !done[a.id] {
				stack = append(stack, fr{a, 0})
			}
			continue
		}
		x := f.t
		stack = stack[:len(stack)-1]
		done[x.id] = true
		switch x.op {
		case OpConst, OpBool:
		case OpVar:
			fmt.Fprintf(out, "(declare-const %s %s)\n", smtName(x.name), x.sortString())
		case OpArrSplit:
			panic("OpArrSplit array reached the solver (write into a WithTail buffer is unsupported)")
		case OpArrConst:
			fmt.Fprintf(out, "(define-fun t%d () %s ", x.id, x.sortString())
			n := 0
			for i, b := range x.data {
				if b != 0 {
					_ = i
					n++
				}
			}
			out.WriteString(strings.Repeat("(store ", n))
			out.WriteString("((as const (Array (_ BitVec 64) (_ BitVec 8))) #x00)")
			for i, b := range x.data {
				if b != 0 {
					fmt.Fprintf(out, " %s #x%02x)", bvLit(64, big.NewInt(int64(i))), b)
				}
			}
			out.WriteString(")\n")
		case OpApp:
			if !declaredUF[x.name] {
				declaredUF[x.name] = true
				fmt.Fprintf(out, "(declare-fun %s (", smtName(x.name))
				for i, a := range x.args {
					if i > 0 {
						out.WriteString(" ")
					}
					out.WriteString(a.sortString())
				}
				fmt.Fprintf(out, ") %s)\n", x.sortString())
			}
			fmt.Fprintf(out, "(define-fun t%d () %s (%s", x.id, x.sortString(), smtName(x.name))
			for _, a := range x.args {
				out.WriteString(" ")
				out.WriteString(a.ref())
			}
			out.WriteString("))\n")
		default:
			fmt.Fprintf(out, "(define-fun t%d () %s ", x.id, x.sortString())
			switch x.op {
			case OpExtract:
				fmt.Fprintf(out, "((_ extract %d %d) %s)", x.p1, x.p2, x.args[0].ref())
			case OpZExt:
				fmt.Fprintf(out, "((_ zero_extend %d) %s)", x.w-x.args[0].w, x.args[0].ref())
			case OpSExt:
				fmt.Fprintf(out, "((_ sign_extend %d) %s)", x.w-x.args[0].w, x.args[0].ref())
			default:
				out.WriteString("(")
				out.WriteString(opNames[x.op])
				for _, a := range x.args {
					out.WriteString(" ")
					out.WriteString(a.ref())
				}
				out.WriteString(")")
			}
			out.WriteString(")\n")
		}
	}
}

// String renders a term for humans (bounded depth).
func (t *Term) String() string { return t.str(6) }

func (t *Term) str(d int) string {
	switch t.op {
	case OpConst:
		if t.w <= 64 {
			return fmt.Sprintf("%d:%d", t.lo, t.w)
		}
		return "0x" + t.big.Text(16)
	case OpBool:
		return fmt.Sprint(t.lo == 1)
	case OpVar:
		return t.name
	case OpArrConst:
		return fmt.Sprintf("arr%q", string(t.data))
	}
	if d == 0 {
		return fmt.Sprintf("t%d", t.id)
	}
	var sb strings.Builder
	sb.WriteString("(")
	switch t.op {
	case OpExtract:
		fmt.Fprintf(&sb, "extract[%d:%d]", t.p1, t.p2)
	case OpZExt:
		fmt.Fprintf(&sb, "zext%d", t.w)
	case OpSExt:
		fmt.Fprintf(&sb, "sext%d", t.w)
	case OpApp:
		sb.WriteString(t.name)
	default:
		sb.WriteString(opNames[t.op])
	}
	for _, a := range t.args {
		sb.WriteString(" ")
		sb.WriteString(a.str(d - 1))
	}
	sb.WriteString(")")
	return sb.String()
}
