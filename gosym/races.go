package main

// Data-race query over the synchronisation events of one symbolic path.
//
// While a harness runs with zzvrf.RaceRecord(true), goroutine bodies
// (errgroup closures, inlined go statements) still execute sequentially, but
// every memory access is logged with its thread, together with fork, begin,
// end, join, lock-acquire/release and WaitGroup signal/wait events. After the
// path, the question "can these two conflicting accesses be unordered in SOME
// schedule consistent with program order, fork/join and lock mutual
// exclusion?" is put to the solver with one integer order variable per event
// (Said et al. / Huang et al. style maximal causal model, equality
// formulation: all constraints are strict orders, a pair races iff O(a) = O(b)
// is satisfiable). Control flow and addresses are those of the recorded path.

import (
	"fmt"
	"go/token"
	"os/exec"
	"sort"
	"strings"
)

type raceEvent struct {
	id     int
	tid    int
	kind   byte // 'r' read, 'w' write, 'a' acquire, 'l' release, 'f' fork, 'b' begin, 'e' end, 'j' join, 's' signal, 'W' wait
	loc    any  // *Cell or *ByteObj (accesses), *Cell (locks, waitgroups)
	atomic bool
	pos    token.Pos
	other  int // fork: child tid; join: child tid
	fn     string
}

type raceRec struct {
	events  []raceEvent
	tid     int
	ntid    int
	groups  map[*Cell][]int // errgroup / waitgroup cell -> child tids
	enabled bool
}

func (e *Engine) raceOn() bool { return e.race != nil && e.race.enabled && !e.spec }

func (e *Engine) raceAdd(kind byte, loc any, pos token.Pos, atomic bool, other int) {
	r := e.race
	fn := ""
	if n := len(e.curFn); n > 0 {
		fn = e.curFn[n-1].String()
	}
	r.events = append(r.events, raceEvent{id: len(r.events), tid: r.tid, kind: kind, loc: loc, atomic: atomic, pos: pos, other: other, fn: fn})
}

// raceAccessCell logs an access to a cell, expanding aggregates to leaves.
func (e *Engine) raceAccessCell(c *Cell, write bool, pos token.Pos, atomic bool) {
	if !e.raceOn() {
		return
	}
	if a, ok := c.v.(*Agg); ok {
		for _, f := range a.cells {
			e.raceAccessCell(f, write, pos, atomic)
		}
		return
	}
	k := byte('r')
	if write {
		k = 'w'
	}
	e.raceAdd(k, c, pos, atomic, 0)
}

func (e *Engine) raceAccessBytes(b *ByteObj, write bool, pos token.Pos) {
	if !e.raceOn() || b == nil {
		return
	}
	k := byte('r')
	if write {
		k = 'w'
	}
	e.raceAdd(k, b, pos, false, 0)
}

// raceSpawn runs body as a new thread (sequentially) and logs fork/begin/end.
func (e *Engine) raceSpawn(group *Cell, pos token.Pos, body func()) {
	if !e.raceOn() {
		body()
		return
	}
	r := e.race
	r.ntid++
	child := r.ntid
	e.raceAdd('f', nil, pos, false, child)
	parent := r.tid
	r.tid = child
	e.raceAdd('b', nil, pos, false, 0)
	defer func() {
		e.raceAdd('e', nil, pos, false, 0)
		r.tid = parent
		if group != nil {
			r.groups[group] = append(r.groups[group], child)
		}
	}()
	body()
}

func (e *Engine) raceJoin(group *Cell, pos token.Pos) {
	if !e.raceOn() {
		return
	}
	for _, child := range e.race.groups[group] {
		e.raceAdd('j', nil, pos, false, child)
	}
	delete(e.race.groups, group)
}

type raceReport struct {
	a, b raceEvent
}

// raceAnalyse decides every conflicting pair of the recorded path.
func (e *Engine) raceAnalyse() []raceReport {
	r := e.race
	if r == nil || len(r.events) == 0 {
		return nil
	}
	// locations touched by at least two threads with at least one plain write
	type locInfo struct {
		tids   map[int]bool
		writes bool
	}
	locs := map[any]*locInfo{}
	for _, ev := range r.events {
		if ev.kind != 'r' && ev.kind != 'w' {
			continue
		}
		li := locs[ev.loc]
		if li == nil {
			li = &locInfo{tids: map[int]bool{}}
			locs[ev.loc] = li
		}
		li.tids[ev.tid] = true
		if ev.kind == 'w' {
			li.writes = true
		}
	}
	relevant := func(ev raceEvent) bool {
		switch ev.kind {
		case 'r', 'w':
			li := locs[ev.loc]
			return li != nil && len(li.tids) > 1 && li.writes
		}
		return true
	}
	var evs []raceEvent
	for _, ev := range r.events {
		if relevant(ev) {
			evs = append(evs, ev)
		}
	}
	// candidate pairs: one representative per (loc, tid, kind, pos)
	type key struct {
		loc  any
		tid  int
		kind byte
		pos  token.Pos
	}
	rep := map[key]raceEvent{}
	var reps []raceEvent
	for _, ev := range evs {
		if ev.kind != 'r' && ev.kind != 'w' {
			continue
		}
		k := key{ev.loc, ev.tid, ev.kind, ev.pos}
		if _, ok := rep[k]; !ok {
			rep[k] = ev
			reps = append(reps, ev)
		}
	}
	var pairs [][2]raceEvent
	for i := 0; i < len(reps); i++ {
		for j := i + 1; j < len(reps); j++ {
			a, b := reps[i], reps[j]
			if a.loc != b.loc || a.tid == b.tid {
				continue
			}
			if a.kind == 'r' && b.kind == 'r' {
				continue
			}
			if a.atomic && b.atomic {
				continue
			}
			pairs = append(pairs, [2]raceEvent{a, b})
		}
	}
	if len(pairs) == 0 {
		return nil
	}
	// constraints
	var sb strings.Builder
	sb.WriteString("(set-logic QF_IDL)\n")
	_ = 0
	for _, ev := range evs {
		fmt.Fprintf(&sb, "(declare-const o%d Int)\n", ev.id)
	}
	lt := func(a, b int) { fmt.Fprintf(&sb, "(assert (< o%d o%d))\n", a, b) }
	last := map[int]int{}    // tid -> last event id
	begin := map[int]int{}   // tid -> begin event
	end := map[int]int{}     // tid -> end event
	type cs struct{ tid, acq, rel int }
	critical := map[any][]cs{}
	open := map[any]map[int]int{} // lock -> tid -> acquire event
	signals := map[any][]int{}
	for _, ev := range evs {
		if p, ok := last[ev.tid]; ok {
			lt(p, ev.id)
		}
		last[ev.tid] = ev.id
		switch ev.kind {
		case 'b':
			begin[ev.tid] = ev.id
		case 'e':
			end[ev.tid] = ev.id
		case 'a':
			if open[ev.loc] == nil {
				open[ev.loc] = map[int]int{}
			}
			open[ev.loc][ev.tid] = ev.id
		case 'l':
			if acq, ok := open[ev.loc][ev.tid]; ok {
				critical[ev.loc] = append(critical[ev.loc], cs{ev.tid, acq, ev.id})
				delete(open[ev.loc], ev.tid)
			}
		case 's':
			signals[ev.loc] = append(signals[ev.loc], ev.id)
		case 'W':
			for _, s := range signals[ev.loc] {
				lt(s, ev.id)
			}
		}
	}
	for _, ev := range evs {
		switch ev.kind {
		case 'f':
			if b, ok := begin[ev.other]; ok {
				lt(ev.id, b)
			}
		case 'j':
			if en, ok := end[ev.other]; ok {
				lt(en, ev.id)
			}
		}
	}
	for _, list := range critical {
		for i := 0; i < len(list); i++ {
			for j := i + 1; j < len(list); j++ {
				if list[i].tid == list[j].tid {
					continue
				}
				fmt.Fprintf(&sb, "(assert (or (< o%d o%d) (< o%d o%d)))\n", list[i].rel, list[j].acq, list[j].rel, list[i].acq)
			}
		}
	}
	// read consistency: every read (other than the two accesses under test)
	// sees the write it saw in the recorded path, so control flow and addresses
	// stay those of the path (conservative: may miss races, never invents one).
	writesOf := map[any][]raceEvent{}
	var reads []raceEvent
	source := map[int]int{} // read id -> write id (-1: initial value)
	for _, ev := range evs {
		switch ev.kind {
		case 'w':
			writesOf[ev.loc] = append(writesOf[ev.loc], ev)
		case 'r':
			ws := writesOf[ev.loc]
			if len(ws) > 0 {
				source[ev.id] = ws[len(ws)-1].id
			} else {
				source[ev.id] = -1
			}
			reads = append(reads, ev)
		}
	}
	for _, rd := range reads {
		fmt.Fprintf(&sb, "(declare-const rc%d Bool)\n", rd.id)
		src := source[rd.id]
		var parts []string
		if src >= 0 {
			parts = append(parts, fmt.Sprintf("(< o%d o%d)", src, rd.id))
		}
		for _, w := range writesOf[rd.loc] {
			if w.id == src || w.tid == rd.tid {
				continue
			}
			if src >= 0 {
				parts = append(parts, fmt.Sprintf("(or (< o%d o%d) (< o%d o%d))", w.id, src, rd.id, w.id))
			} else {
				parts = append(parts, fmt.Sprintf("(< o%d o%d)", rd.id, w.id))
			}
		}
		if len(parts) == 0 {
			parts = []string{"true"}
		}
		fmt.Fprintf(&sb, "(assert (=> rc%d (and %s true)))\n", rd.id, strings.Join(parts, " "))
	}
	for _, p := range pairs {
		fmt.Fprintf(&sb, "(push 1)\n(assert (= o%d o%d))\n", p[0].id, p[1].id)
		for _, rd := range reads {
			// representatives stand for all accesses of (loc, tid, kind, pos): relax those
			if (rd.loc == p[0].loc && rd.tid == p[0].tid && rd.pos == p[0].pos) || (rd.loc == p[1].loc && rd.tid == p[1].tid && rd.pos == p[1].pos) {
				continue
			}
			fmt.Fprintf(&sb, "(assert rc%d)\n", rd.id)
		}
		sb.WriteString("(check-sat)\n(pop 1)\n")
	}
	argv := solverArgv(defaultSolver(), 60000)
	cmd := exec.Command(argv[0], argv[1:]...)
	cmd.Stdin = strings.NewReader(sb.String())
	out, _ := cmd.Output()
	lines := strings.Fields(string(out))
	e.res.RaceQueries += len(pairs)
	var reps2 []raceReport
	if len(lines) != len(pairs) {
		e.inconclusive(fmt.Sprintf("race query: solver answered %d of %d pairs", len(lines), len(pairs)))
		return nil
	}
	for i, l := range lines {
		switch l {
		case "sat":
			reps2 = append(reps2, raceReport{pairs[i][0], pairs[i][1]})
		case "unsat":
			e.res.RaceUnsat++
		default:
			e.inconclusive("race query: " + l)
		}
	}
	sort.Slice(reps2, func(i, j int) bool { return reps2[i].a.pos < reps2[j].a.pos })
	return reps2
}

func (e *Engine) raceFinish(id string) {
	reps := e.raceAnalyse()
	st := e.stat(id)
	st.Checked++
	if len(e.race.events) > 0 {
		st.Nontrivial++
	}
	seen := map[string]bool{}
	for _, rp := range reps {
		desc := func(ev raceEvent) string {
			k := "read"
			if ev.kind == 'w' {
				k = "write"
			}
			return fmt.Sprintf("%s at %s in %s (thread %d)", k, e.posString(ev.pos), ev.fn, ev.tid)
		}
		short := func(ev raceEvent) string {
			fn := strings.ReplaceAll(ev.fn, repoMod+"/", "")
			k := "r"
			if ev.kind == 'w' {
				k = "w"
			}
			return fn + "[" + k + "]"
		}
		// identified by the two functions (stable under unrelated edits); lines are in the message
		pa, pb := short(rp.a), short(rp.b)
		if pb < pa {
			pa, pb = pb, pa
		}
		pos := pa + " / " + pb
		if seen[pos] {
			continue
		}
		seen[pos] = true
		st.Violated++
		e.reportViolation(id, "race", desc(rp.a)+" races with "+desc(rp.b), pos, nil)
	}
	e.race.events = nil
}

// raceAccessMap logs a map operation as an access to the map as a whole:
// lookups, len and iteration read it, insertion and deletion write it (Go
// maps are not safe for concurrent use when one side writes).
func (e *Engine) raceAccessMap(m *MapObj, write bool, pos token.Pos) {
	if !e.raceOn() || m == nil {
		return
	}
	if m.hdr == nil {
		m.hdr = &Cell{v: e.tt.Const(8, 0)}
	}
	k := byte('r')
	if write {
		k = 'w'
	}
	e.raceAdd(k, m.hdr, pos, false, 0)
}
