package main

// Calls, builtins and dispatch.

import (
	"fmt"
	"go/token"
	"go/types"
	"strings"

	"golang.org/x/tools/go/ssa"
)

func (e *Engine) prepareCall(fr *frame, c *ssa.CallCommon) deferred {
	d := deferred{call: c}
	if c.IsInvoke() {
		recv := e.eval(fr, c.Value).(*Iface)
		d.recv = recv
		if recv.typ == nil {
			d.fn = nil
		} else {
			m := e.prog.LookupMethod(recv.typ, c.Method.Pkg(), c.Method.Name())
			if m == nil {
				panic(e.unsupported(fmt.Sprintf("method %s not found on %s", c.Method.Name(), recv.typ)))
			}
			d.fn = &Closure{fn: m}
			d.args = append(d.args, recv.val)
		}
	} else {
		d.fn = e.eval(fr, c.Value)
	}
	for _, a := range c.Args {
		d.args = append(d.args, e.eval(fr, a))
	}
	return d
}

func (e *Engine) doCall(fr *frame, c *ssa.CallCommon, pos token.Pos) Value {
	d := e.prepareCall(fr, c)
	if c.IsInvoke() && d.fn == nil {
		panic(e.raise("nil", "invalid memory address or nil pointer dereference (method call on nil interface)", pos))
	}
	return e.invoke(fr, d.fn, d.args, c, nil)
}

func (e *Engine) invoke(fr *frame, fn Value, args []Value, c *ssa.CallCommon, deferOf *frame) Value {
	switch f := fn.(type) {
	case *ssa.Builtin:
		return e.builtin(fr, f, args, c, deferOf)
	case *Closure:
		if f == nil {
			pos := token.NoPos
			if c != nil {
				pos = c.Pos()
			}
			panic(e.raise("nil", "invalid memory address or nil pointer dereference (nil func)", pos))
		}
		return e.callFn(fr, f.fn, args, f.env, c, deferOf)
	}
	panic(e.unsupported(fmt.Sprintf("call of %T", fn)))
}

func fnKey(fn *ssa.Function) string {
	if o := fn.Origin(); o != nil {
		return o.String()
	}
	return fn.String()
}

func (e *Engine) callFn(fr *frame, fn *ssa.Function, args []Value, env []Value, c *ssa.CallCommon, deferOf *frame) Value {
	key := fnKey(fn)
	if h, ok := intercepts[key]; ok {
		if r, handled := h(e, fr, fn, args, c); handled {
			e.res.Stubs[key]++
			return r
		}
	}
	if fn.Pkg != nil {
		path := fn.Pkg.Pkg.Path()
		if noopPackages[path] {
			e.res.Stubs[path+".* (no-op)"]++
			return e.zeroResults(fn)
		}
		if strings.HasSuffix(path, "/zzvrf") {
			return e.intrinsic(fr, fn, args, c)
		}
	} else if fn.Origin() != nil && fn.Origin().Pkg != nil {
		path := fn.Origin().Pkg.Pkg.Path()
		if strings.HasSuffix(path, "/zzvrf") {
			return e.intrinsic(fr, fn, args, c)
		}
	}
	if key == doKey && fr != nil && fr.fn != nil && fr.fn.Name() == "zzRealDo" {
		// the uncut (*Client).do, with the library calls inside it cut instead
		e.realDo++
		defer func() { e.realDo-- }()
		e.res.Stubs["real (*Client).do with library cuts"]++
		return e.callFunction(fn, args, env, deferOf)
	}
	if e.realDo > 0 {
		if rd, ok := e.ld.redirectsDo[key]; ok {
			e.res.Stubs["redirect "+key+" -> "+rd.String()]++
			return e.callFunction(rd, args, nil, deferOf)
		}
	}
	if rd, ok := e.ld.redirects[key]; ok && !(e.cfg.Flags["real-net"] && strings.HasPrefix(key, "(net.IP).")) {
		e.res.Stubs["redirect "+key+" -> "+rd.String()]++
		return e.callFunction(rd, args, nil, deferOf)
	}
	return e.callFunction(fn, args, env, deferOf)
}

// ---------- builtins ----------

func (e *Engine) lenOf(v Value) *Term {
	switch x := v.(type) {
	case *StringV:
		return e.strLen(x)
	case *Slice:
		return x.len
	case *MapV:
		if x.obj == nil {
			return e.c64(0)
		}
		e.raceAccessMap(x.obj, false, e.pos)
		return e.c64(uint64(e.mapLen(x.obj)))
	case *Array:
		return e.c64(uint64(len(x.elems)))
	case *Pointer: // *array
		if x.cell != nil {
			return e.c64(uint64(len(x.cell.v.(*Agg).cells)))
		}
	case *ChanV:
		if x.obj == nil {
			return e.c64(0)
		}
		return e.c64(uint64(len(x.obj.buf)))
	}
	panic(e.unsupported(fmt.Sprintf("len of %T", v)))
}

func (e *Engine) builtin(fr *frame, b *ssa.Builtin, args []Value, c *ssa.CallCommon, deferOf *frame) Value {
	switch b.Name() {
	case "len":
		return e.lenOf(args[0])
	case "cap":
		switch x := args[0].(type) {
		case *Slice:
			return x.cap
		case *ChanV:
			return e.c64(uint64(x.obj.cap))
		}
		return e.lenOf(args[0])
	case "append":
		return e.appendOp(args[0].(*Slice), args[1], c.Args[0].Type())
	case "copy":
		return e.copyOp(args[0].(*Slice), args[1])
	case "delete":
		m := args[0].(*MapV)
		if m.obj != nil {
			e.raceAccessMap(m.obj, true, c.Pos())
			e.mapDelete(m.obj, args[1])
		}
		return nil
	case "print", "println":
		return nil
	case "recover":
		// valid only in a function run as a deferred call while its parent panics
		if fr.deferOf != nil && fr.deferOf.panicking != nil {
			gp := fr.deferOf.panicking
			fr.deferOf.panicking = nil
			if iv, ok := gp.val.(*Iface); ok {
				return iv
			}
			return &Iface{typ: types.Typ[types.String], val: e.concStr(gp.msg)}
		}
		return &Iface{}
	case "min", "max":
		res := args[0]
		for i, a := range args[1:] {
			_ = i
			x, ok1 := res.(*Term)
			y, ok2 := a.(*Term)
			if !ok1 || !ok2 {
				panic(e.unsupported("min/max on non-integers"))
			}
			_, signed, _ := intWidth(c.Args[0].Type())
			var lt *Term
			if signed {
				lt = e.tt.Bin(OpSlt, x, y)
			} else {
				lt = e.tt.Bin(OpUlt, x, y)
			}
			if b.Name() == "min" {
				res = e.tt.Ite(lt, x, y)
			} else {
				res = e.tt.Ite(lt, y, x)
			}
		}
		return res
	case "clear":
		switch x := args[0].(type) {
		case *Slice:
			if x.nilS {
				return nil
			}
			n := e.mustConst(x.len, "clear length")
			et := c.Args[0].Type().Underlying().(*types.Slice).Elem()
			for i := uint64(0); i < n; i++ {
				e.sliceStore(x, e.c64(i), e.zero(et))
			}
		case *MapV:
			if x.obj != nil {
				for i := range x.obj.dead {
					x.obj.dead[i] = true
				}
				x.obj.index = map[string]int{}
			}
		}
		return nil
	case "close":
		ch := args[0].(*ChanV)
		e.chanClose(ch, c.Pos())
		return nil
	case "ssa:wrapnilchk":
		if p, ok := args[0].(*Pointer); ok && p.IsNil() {
			panic(e.raise("nil", "value method called using nil pointer", c.Pos()))
		}
		return args[0]
	}
	panic(e.unsupported("builtin " + b.Name()))
}

func (e *Engine) appendOp(s *Slice, add Value, st types.Type) Value {
	elem := st.Underlying().(*types.Slice).Elem()
	isByte := isByteType(elem)
	// source as slice
	var src *Slice
	switch x := add.(type) {
	case *Slice:
		src = x
	case *StringV:
		src = e.stringToBytes(x)
	default:
		panic(e.unsupported(fmt.Sprintf("append of %T", add)))
	}
	if src.nilS || (src.len.op == OpConst && src.len.lo == 0) {
		return s
	}
	n := e.mustConst(src.len, "append length")
	if isByte {
		if s.nilS {
			s = &Slice{bobj: e.newByteObj(e.tt.ArrConst(nil)), off: e.c64(0), len: e.c64(0), cap: e.c64(0)}
		}
		if s.bobj == nil {
			// agg-backed byte slice: convert to byte object copy when growing
			return e.appendAgg(s, src, elem, n)
		}
		need := e.tt.Bin(OpAdd, s.len, e.c64(n))
		fits := e.tt.Bin(OpUle, need, s.cap)
		if e.branch(fits) {
			ns := &Slice{bobj: s.bobj, off: s.off, len: need, cap: s.cap}
			for i := uint64(0); i < n; i++ {
				e.sliceStore(ns, e.tt.Bin(OpAdd, s.len, e.c64(i)), e.sliceLoad(src, e.c64(i)))
			}
			return ns
		}
		// grow: fresh object containing a snapshot of the old bytes at the same indices
		nb := e.newByteObj(s.bobj.arr)
		var ncap *Term
		if need.op == OpConst && s.cap.op == OpConst {
			c := 2 * s.cap.lo
			if c < need.lo {
				c = need.lo
			}
			c = (c + 7) &^ 7
			ncap = e.c64(c)
		} else {
			ncap = need
		}
		ns := &Slice{bobj: nb, off: s.off, len: need, cap: ncap}
		for i := uint64(0); i < n; i++ {
			e.sliceStore(ns, e.tt.Bin(OpAdd, s.len, e.c64(i)), e.sliceLoad(src, e.c64(i)))
		}
		return ns
	}
	return e.appendAgg(s, src, elem, n)
}

func (e *Engine) appendAgg(s, src *Slice, elem types.Type, n uint64) Value {
	if s.nilS {
		s = &Slice{agg: e.newAgg(elem, 0), off: e.c64(0), len: e.c64(0), cap: e.c64(0)}
	}
	l := e.mustConst(s.len, "append len")
	c := e.mustConst(s.cap, "append cap")
	off := e.mustConst(s.off, "append off")
	// read sources first (may alias)
	vals := make([]Value, n)
	for i := uint64(0); i < n; i++ {
		vals[i] = e.sliceLoad(src, e.c64(i))
	}
	if l+n <= c {
		ns := &Slice{agg: s.agg, off: e.c64(off), len: e.c64(l + n), cap: e.c64(c)}
		for i := uint64(0); i < n; i++ {
			e.storeCell(s.agg.cells[off+l+i], vals[i])
		}
		return ns
	}
	nc := 2 * c
	if nc < l+n {
		nc = l + n
	}
	if nc > 1<<16 {
		panic(pathEnd{"budget", "huge append"})
	}
	agg := e.newAgg(elem, int(nc))
	for i := uint64(0); i < l; i++ {
		e.storeCell(agg.cells[i], e.loadCell(s.agg.cells[off+i]))
	}
	for i := uint64(0); i < n; i++ {
		e.storeCell(agg.cells[l+i], vals[i])
	}
	return &Slice{agg: agg, off: e.c64(0), len: e.c64(l + n), cap: e.c64(nc)}
}

func (e *Engine) copyOp(dst *Slice, srcv Value) Value {
	var src *Slice
	switch x := srcv.(type) {
	case *Slice:
		src = x
	case *StringV:
		src = e.stringToBytes(x)
	}
	var lt *Term = e.tt.Bin(OpUlt, dst.len, src.len)
	nT := e.tt.Ite(lt, dst.len, src.len)
	n := e.mustConst(nT, "copy length")
	if n == 0 {
		return e.c64(0)
	}
	vals := make([]Value, n)
	for i := uint64(0); i < n; i++ {
		vals[i] = e.sliceLoad(src, e.c64(i))
	}
	for i := uint64(0); i < n; i++ {
		e.sliceStore(dst, e.c64(i), vals[i])
	}
	return e.c64(n)
}

// ---------- goroutines, channels (sequential semantics; see threads.go) ----------

func (e *Engine) goStmt(fr *frame, x *ssa.Go) {
	d := e.prepareCall(fr, &x.Call)
	name := "?"
	if cl, ok := d.fn.(*Closure); ok && cl != nil {
		name = cl.fn.String()
	}
	if e.threads != nil {
		e.threads.spawn(e, d)
		return
	}
	if e.goInline {
		e.res.Stubs["go (inline) "+name]++
		e.raceSpawn(nil, x.Pos(), func() { e.invoke(fr, d.fn, d.args, d.call, nil) })
		return
	}
	e.res.Stubs["go (not scheduled) "+name]++
}

func (e *Engine) chanClose(ch *ChanV, pos token.Pos) {
	if ch.obj == nil {
		panic(e.raise("close", "close of nil channel", pos))
	}
	if ch.obj.closed {
		gp := &goPanic{val: &Iface{typ: types.Typ[types.String], val: e.concStr("close of closed channel")}, kind: "close", msg: "close of closed channel", pos: pos}
		e.lastPanic = gp
		panic(gp)
	}
	ch.obj.closed = true
	if e.threads != nil {
		e.threads.yield(e, "close")
	}
}

func (e *Engine) chanSend(fr *frame, x *ssa.Send) {
	ch := e.eval(fr, x.Chan).(*ChanV)
	v := e.eval(fr, x.X)
	if e.threads != nil {
		e.threads.send(e, ch, v, x.Pos())
		return
	}
	if ch.obj == nil {
		panic(pathEnd{"deadlock", "send on nil channel"})
	}
	if ch.obj.closed {
		panic(&goPanic{val: &Iface{typ: types.Typ[types.String], val: e.concStr("send on closed channel")}, kind: "close", msg: "send on closed channel", pos: x.Pos()})
	}
	ch.obj.buf = append(ch.obj.buf, v)
}

func (e *Engine) chanRecv(fr *frame, x *ssa.UnOp, ch *ChanV) Value {
	et := x.X.Type().Underlying().(*types.Chan).Elem()
	if e.threads != nil {
		return e.threads.recv(e, ch, et, x.CommaOk, x.Pos())
	}
	var v Value
	ok := false
	switch {
	case ch.obj != nil && len(ch.obj.buf) > 0:
		v, ok = ch.obj.buf[0], true
		ch.obj.buf = ch.obj.buf[1:]
	case ch.obj != nil && ch.obj.closed:
		v = e.zero(et)
	default:
		panic(pathEnd{"deadlock", "receive would block forever (sequential mode)"})
	}
	if x.CommaOk {
		return &Tuple{vals: []Value{v, e.tt.Bool(ok)}}
	}
	return v
}

func (e *Engine) selectStmt(fr *frame, x *ssa.Select) Value {
	if e.threads != nil {
		return e.threads.selectStmt(e, fr, x)
	}
	// sequential: first ready case, else default, else deadlock
	vals := []Value{nil, e.tt.False}
	ready := -1
	for i, st := range x.States {
		ch := e.eval(fr, st.Chan).(*ChanV)
		if ch.obj == nil {
			continue
		}
		if st.Dir == types.RecvOnly && (len(ch.obj.buf) > 0 || ch.obj.closed) {
			ready = i
			break
		}
	}
	for _, st := range x.States {
		if st.Dir == types.RecvOnly {
			vals = append(vals, e.zero(st.Chan.Type().Underlying().(*types.Chan).Elem()))
		}
	}
	if ready < 0 {
		if !x.Blocking {
			vals[0] = e.tt.Const(64, ^uint64(0))
			return &Tuple{vals: vals}
		}
		panic(pathEnd{"deadlock", "select would block forever (sequential mode)"})
	}
	vals[0] = e.c64(uint64(ready))
	ch := e.eval(fr, x.States[ready].Chan).(*ChanV)
	if len(ch.obj.buf) > 0 {
		ri := 2
		for i := 0; i < ready; i++ {
			if x.States[i].Dir == types.RecvOnly {
				ri++
			}
		}
		vals[ri] = ch.obj.buf[0]
		ch.obj.buf = ch.obj.buf[1:]
		vals[1] = e.tt.True
	}
	return &Tuple{vals: vals}
}

// memEvent records a memory access for the race query (races.go).
func (e *Engine) memEvent(c *Cell, write bool, pos token.Pos) {
	if e.race != nil {
		e.raceAccessCell(c, write, pos, e.raceAtomic)
	}
}
