package main

import (
	"fmt"
	"go/constant"
	"sort"
	"strings"

	"golang.org/x/tools/go/ssa"
)

// routeCheck reads the route table built in cmd/shovel main from its SSA:
// every configuration-changing endpoint must be registered with a handler
// produced by (*web.Handler).Authn. This is a structural side-condition, not
// a solver query; it is reported separately in the evidence.
func routeCheck(ld *Loaded) (facts, viols []string) {
	pkg := ld.ssaPkg("./cmd/shovel")
	if pkg == nil {
		return nil, []string{"cmd/shovel not loaded"}
	}
	mainFn := pkg.Func("main")
	if mainFn == nil {
		return nil, []string{"main.main not found"}
	}
	required := map[string]bool{"/task-updates": false, "/add-source": false, "/save-source": false, "/add-integration": false, "/save-integration": false}
	authnName := "(*" + repoMod + "/shovel/web.Handler).Authn"
	var visit func(fn *ssa.Function)
	seen := map[*ssa.Function]bool{}
	visit = func(fn *ssa.Function) {
		if seen[fn] {
			return
		}
		seen[fn] = true
		for _, b := range fn.Blocks {
			for _, in := range b.Instrs {
				call, ok := in.(*ssa.Call)
				if !ok {
					continue
				}
				callee := call.Call.StaticCallee()
				if callee == nil {
					continue
				}
				name := callee.String()
				if name != "(*net/http.ServeMux).Handle" && name != "(*net/http.ServeMux).HandleFunc" {
					continue
				}
				pc, ok := call.Call.Args[1].(*ssa.Const)
				if !ok || pc.Value == nil {
					viols = append(viols, "route registered with a non-constant path at "+ld.prog.Fset.Position(call.Pos()).String())
					continue
				}
				path := constant.StringVal(pc.Value)
				protected := false
				if name == "(*net/http.ServeMux).Handle" {
					h := call.Call.Args[2]
					if mi, ok := h.(*ssa.MakeInterface); ok {
						h = mi.X
					}
					if hc, ok := h.(*ssa.Call); ok {
						if c := hc.Call.StaticCallee(); c != nil && c.String() == authnName {
							protected = true
						}
					}
				}
				facts = append(facts, fmt.Sprintf("route %s registered via %s protected=%v", path, name[len("(*net/http.ServeMux)."):], protected))
				if _, req := required[path]; req {
					required[path] = required[path] || protected
					if !protected {
						viols = append(viols, fmt.Sprintf("protected endpoint %s is registered without the authentication wrapper", path))
					}
				} else if !protected && (strings.HasPrefix(path, "/save-") || strings.HasPrefix(path, "/add-")) {
					viols = append(viols, fmt.Sprintf("configuration-changing endpoint %s is registered without the authentication wrapper", path))
				}
			}
		}
		for _, af := range fn.AnonFuncs {
			visit(af)
		}
	}
	visit(mainFn)
	for p, ok := range required {
		if !ok {
			found := false
			for _, v := range viols {
				if strings.Contains(v, p) {
					found = true
				}
			}
			if !found {
				viols = append(viols, fmt.Sprintf("protected endpoint %s is not registered through Authn", p))
			}
		}
	}
	sort.Strings(facts)
	sort.Strings(viols)
	return facts, viols
}
