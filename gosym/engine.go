package main

// Path exploration: depth-first over decisions by re-execution. Every
// symbolic branch / concretisation is a decision recorded in a trace; a new
// path replays the prefix without consulting the solver.

import (
	"fmt"
	"go/token"
	"go/types"
	"os"
	"sort"
	"strings"
	"time"

	"golang.org/x/tools/go/ssa"
)

var traceDecisions = os.Getenv("GOSYM_TRACE") != ""

type decKind uint8

const (
	dBranch decKind = iota
	dChoose
	dPick
)

type decision struct {
	kind  decKind
	val   uint64
	excl  []uint64
	n     int  // dPick: number of alternatives
	done  bool // no alternatives left
	fresh bool // dChoose: value must be (re)computed on next visit
}

type pathEnd struct {
	reason string // "ok", "pruned", "unwind", "unsupported", "budget", "assertstop", "deadlock"
	detail string
}

type goPanic struct {
	val  Value
	kind string // "index", "slice", "nil", "typeassert", "divzero", "explicit", "unlock", "close"
	msg  string
	pos  token.Pos
	fn   string
}

type Violation struct {
	Harness  string         `json:"harness"`
	Params   []int          `json:"params"`
	AssertID string         `json:"assert"`
	Kind     string         `json:"kind"` // assert | panic
	Msg      string         `json:"msg,omitempty"`
	Pos      string         `json:"pos,omitempty"`
	Model    map[string]any `json:"model"`
	Trace    []string       `json:"trace,omitempty"`
	Known    string         `json:"known,omitempty"`
}

type AssertStat struct {
	Checked    int `json:"checked"`
	Nontrivial int `json:"nontrivial"`
	Violated   int `json:"violated"`
	Folded     int `json:"folded_over_symbolic_inputs"`
}

type RunConfig struct {
	Pkg        string
	Harness    string
	Params     []int
	Unwind     int
	MaxPaths   int
	MaxSteps   int
	TimeoutMs  int
	Solver     string
	GoOrder    int  // 0: errgroup closures run at Go(); 1: at Wait() in reverse order
	MapReverse bool // iterate maps in reverse insertion order
	Flags      map[string]bool
	Replay     map[string]any // concrete mode: tag -> value
	StopAtFirst bool
	NoMerge    bool
	Witnesses  int // number of completed paths for which a model is extracted
	QuickMs    int // incremental attempt budget before the one-shot fallback (0: no fallback)
	Deadline   time.Time
}

type RunResult struct {
	Harness      string                 `json:"harness"`
	Params       []int                  `json:"params"`
	Paths        int                    `json:"paths"`
	Pruned       int                    `json:"pruned"`
	Asserts      map[string]*AssertStat `json:"asserts"`
	Reach        map[string]int         `json:"reach"`
	Violations   []Violation            `json:"violations"`
	Inconclusive []string               `json:"inconclusive"`
	Funcs        map[string]int         `json:"-"`
	Stubs        map[string]int         `json:"-"`
	SymVars      map[string]string      `json:"-"`
	Assumes      map[string]int         `json:"assumes"`
	Queries      int                    `json:"queries"`
	QSat         int                    `json:"q_sat"`
	QUnsat       int                    `json:"q_unsat"`
	QUnknown     int                    `json:"q_unknown"`
	SolverS      float64                `json:"solver_s"`
	WallS        float64                `json:"wall_s"`
	Steps        int                    `json:"steps"`
	CacheHits    int                    `json:"query_cache_hits"`
	RaceQueries  int                    `json:"race_queries"`
	RaceUnsat    int                    `json:"race_queries_unsat"`
	Samples      []string               `json:"samples"`
	Notes        []string               `json:"notes,omitempty"`
	Outputs      []string               `json:"-"` // concrete-mode outcome lines
	Witnesses    []map[string]any       `json:"-"` // solver models of completed paths (native differential)
}

type symVar struct {
	tag  string
	kind string // "int", "bool", "bytes"
	t    *Term  // scalar var, or array var for bytes
	n    int    // bytes: number of bytes
}

type Engine struct {
	prog *ssa.Program
	ld   *Loaded
	tt   *TermTable
	sol  *Solver
	cfg  RunConfig
	res  *RunResult

	// per path
	pc        []*Term
	trace     []decision
	tpos      int
	globals   map[*ssa.Global]*Cell
	inited    map[*ssa.Package]bool
	steps     int
	nobj      int
	symvars   []symVar
	symseen   map[string]int
	tagcount  map[string]int
	realDo    int
	syncMaps  map[*Cell]*MapObj
	unwind    int
	depth     int
	lastPanic *goPanic
	ghost     map[string]Value
	events    []string
	sentinels map[string]Value
	pending   []*Closure // deferred errgroup closures (GoOrder=1)
	pendingBy map[*Cell][]*Closure
	goInline  bool
	curFn     []*ssa.Function
	threads   *threadState
	spec      bool
	race      *raceRec
	pos       token.Pos
	raceAtomic bool
	allocLimit int
	usedRand  bool
	qcache    map[string]SatResult
	lastCheck SatResult
}

func NewEngine(ld *Loaded, cfg RunConfig) (*Engine, error) {
	e := &Engine{prog: ld.prog, ld: ld, cfg: cfg}
	e.tt = NewTermTable()
	e.qcache = map[string]SatResult{}
	if cfg.Solver == "" {
		cfg.Solver = defaultSolver()
	}
	if cfg.TimeoutMs == 0 {
		cfg.TimeoutMs = 60000
	}
	if cfg.QuickMs == 0 {
		cfg.QuickMs = 1000
	}
	e.cfg = cfg
	if cfg.Replay == nil {
		s, err := NewSolver(e.tt, cfg.Solver, cfg.TimeoutMs)
		if err != nil {
			return nil, err
		}
		s.quickMs = cfg.QuickMs
		e.sol = s
	}
	e.res = &RunResult{Harness: cfg.Harness, Params: cfg.Params, Asserts: map[string]*AssertStat{}, Reach: map[string]int{},
		Funcs: map[string]int{}, Stubs: map[string]int{}, SymVars: map[string]string{}, Assumes: map[string]int{}}
	return e, nil
}

func (e *Engine) Close() {
	if e.sol != nil {
		e.sol.Close()
	}
}

type unsupportedErr struct{ msg string }

func (e *Engine) unsupported(msg string) unsupportedErr {
	where := ""
	if n := len(e.curFn); n > 0 {
		where = " in " + e.curFn[n-1].String()
	}
	return unsupportedErr{msg + where}
}

func (e *Engine) inconclusive(s string) {
	for _, x := range e.res.Inconclusive {
		if x == s {
			return
		}
	}
	e.res.Inconclusive = append(e.res.Inconclusive, s)
}

// ---------- decisions ----------

func (e *Engine) check(extra *Term) SatResult {
	if e.sol == nil {
		panic("solver used in concrete mode")
	}
	// memoise: re-executed path prefixes repeat the same (pc, extra) queries
	var kb []byte
	for _, t := range e.pc {
		kb = append(kb, byte(t.id), byte(t.id>>8), byte(t.id>>16), byte(t.id>>24))
	}
	kb = append(kb, 0xff, byte(extra.id), byte(extra.id>>8), byte(extra.id>>16), byte(extra.id>>24))
	key := string(kb)
	if r, ok := e.qcache[key]; ok {
		e.res.CacheHits++
		return r
	}
	defer func() {
		if len(e.qcache) < 2000000 {
			e.qcache[key] = e.lastCheck
		}
	}()
	e.checkDeadline()
	r, _ := e.sol.Check(e.pc, extra, nil)
	e.lastCheck = r
	if r == Unknown {
		e.inconclusive("solver-unknown")
	}
	return r
}

func (e *Engine) addPC(t *Term) {
	if t == e.tt.True {
		return
	}
	e.pc = append(e.pc, t)
}

// branch decides a symbolic condition, forking when both sides are feasible.
func (e *Engine) branch(cond *Term) bool {
	if cond.op == OpBool {
		return cond.lo == 1
	}
	if e.spec {
		panic(specAbort{})
	}
	if e.tpos < len(e.trace) {
		d := &e.trace[e.tpos]
		e.tpos++
		if d.kind != dBranch {
			panic(fmt.Sprintf("trace divergence: expected branch at %d", e.tpos-1))
		}
		if d.val == 1 {
			e.addPC(cond)
			return true
		}
		e.addPC(e.tt.Not(cond))
		return false
	}
	// new decision
	var canT, canF bool
	rt := e.check(cond)
	canT = rt != Unsat
	if !canT {
		canF = true // pc is satisfiable by invariant
		if rt == Unknown {
			canF = true
		}
	} else {
		rf := e.check(e.tt.Not(cond))
		canF = rf != Unsat
	}
	d := decision{kind: dBranch}
	switch {
	case canT && canF:
		d.val = 1
	case canT:
		d.val, d.done = 1, true
	default:
		d.val, d.done = 0, true
	}
	e.trace = append(e.trace, d)
	e.tpos++
	if traceDecisions && !d.done {
		fn := "?"
		if n := len(e.curFn); n > 0 {
			fn = e.curFn[n-1].String()
		}
		fmt.Fprintf(os.Stderr, "FORK depth=%d in %s cond=%s\n", len(e.trace), fn, cond.str(3))
	}
	if d.val == 1 {
		e.addPC(cond)
		return true
	}
	e.addPC(e.tt.Not(cond))
	return false
}

// concretize returns a concrete value for t, forking over all feasible values.
func (e *Engine) concretize(t *Term) uint64 {
	if t.op == OpConst {
		return t.lo
	}
	if t.op == OpBool {
		return t.lo
	}
	if e.spec {
		panic(specAbort{})
	}
	var d *decision
	if e.tpos < len(e.trace) {
		d = &e.trace[e.tpos]
		if d.kind != dChoose {
			panic(fmt.Sprintf("trace divergence: expected choose at %d", e.tpos))
		}
	} else {
		e.trace = append(e.trace, decision{kind: dChoose, fresh: true})
		d = &e.trace[len(e.trace)-1]
	}
	e.tpos++
	if d.fresh {
		// compute a value not in excl
		cond := e.tt.True
		for _, x := range d.excl {
			cond = e.tt.And(cond, e.tt.Not(e.tt.Eq(t, e.tt.Const(t.w, x))))
		}
		if e.sol == nil {
			panic("concretize in concrete mode")
		}
		e.checkDeadline()
		r, vals := e.sol.Check(e.pc, cond, []*Term{t})
		if r == Unknown {
			e.inconclusive("solver-unknown")
			panic(pathEnd{"pruned", "unknown in concretize"})
		}
		if r == Unsat || len(vals) == 0 || vals[0] == nil {
			d.done = true
			panic(pathEnd{"pruned", "concretize exhausted"})
		}
		d.val = vals[0].lo
		d.fresh = false
		if len(d.excl) > 4096 {
			e.inconclusive("concretize-range-too-large")
			d.done = true
		}
	}
	e.addPC(e.tt.Eq(t, e.tt.Const(t.w, d.val)))
	return d.val
}

// pick enumerates 0..n-1 without the solver.
func (e *Engine) pick(n int) int {
	if n <= 1 {
		return 0
	}
	if e.cfg.Replay != nil {
		// concrete re-execution: follow the recorded enumerated choices
		// (harness picks and scheduling decisions share one sequence)
		picks, _ := e.cfg.Replay["__picks"].([]any)
		k := e.tagcount["__pickpos"]
		e.tagcount["__pickpos"] = k + 1
		if k < len(picks) {
			if v := int(toU64(picks[k])); v < n {
				return v
			}
		}
		return 0
	}
	if e.tpos < len(e.trace) {
		d := &e.trace[e.tpos]
		e.tpos++
		if d.kind != dPick {
			panic("trace divergence: expected pick")
		}
		return int(d.val)
	}
	e.trace = append(e.trace, decision{kind: dPick, n: n})
	e.tpos++
	return 0
}

// advance moves the trace to the next unexplored alternative; false if done.
func (e *Engine) advance() bool {
	for len(e.trace) > 0 {
		d := &e.trace[len(e.trace)-1]
		switch d.kind {
		case dBranch:
			if !d.done {
				d.val = 1 - d.val
				d.done = true
				return true
			}
		case dChoose:
			if !d.done {
				if !d.fresh {
					d.excl = append(d.excl, d.val)
				}
				d.fresh = true
				return true
			}
		case dPick:
			if int(d.val)+1 < d.n {
				d.val++
				return true
			}
		}
		e.trace = e.trace[:len(e.trace)-1]
	}
	return false
}

// ---------- running ----------

func (e *Engine) resetPath() {
	e.syncMaps = nil
	e.pc = e.pc[:0]
	e.tpos = 0
	e.globals = map[*ssa.Global]*Cell{}
	e.inited = map[*ssa.Package]bool{}
	e.steps = 0
	e.nobj = 0
	e.symvars = e.symvars[:0]
	e.tagcount = map[string]int{}
	e.unwind = e.cfg.Unwind
	e.depth = 0
	e.lastPanic = nil
	e.ghost = map[string]Value{}
	e.events = nil
	e.sentinels = map[string]Value{}
	e.pendingBy = map[*Cell][]*Closure{}
	e.goInline = false
	e.curFn = e.curFn[:0]
	e.threads = nil
	e.race = nil
	e.raceAtomic = false
	e.allocLimit = 0
	e.usedRand = false
	e.tt.nfresh = 0
}

func (e *Engine) Run() *RunResult {
	t0 := time.Now()
	pkg := e.ld.ssaPkg(e.cfg.Pkg)
	if pkg == nil {
		e.inconclusive("package not loaded: " + e.cfg.Pkg)
		return e.res
	}
	fn := pkg.Func(e.cfg.Harness)
	if fn == nil {
		e.inconclusive("harness not found: " + e.cfg.Harness)
		return e.res
	}
	if e.cfg.MaxPaths == 0 {
		e.cfg.MaxPaths = 20000
	}
	if e.cfg.MaxSteps == 0 {
		e.cfg.MaxSteps = 20000000
	}
	if e.cfg.Unwind == 0 {
		e.cfg.Unwind = 64
	}
	for {
		e.resetPath()
		end := e.runPath(fn, pkg)
		if e.cfg.Replay != nil && os.Getenv("GOSYM_DEBUG") != "" {
			fmt.Fprintln(os.Stderr, "replay path end:", end.reason, end.detail)
			for _, ev := range e.events {
				fmt.Fprintln(os.Stderr, "   ", ev)
			}
		}
		if end.reason == "ok" && e.cfg.Replay == nil && len(e.res.Witnesses) < e.cfg.Witnesses && e.threads == nil && !e.usedRand {
			if w := e.model(nil); w != nil {
				var picks []int
				for _, d := range e.trace[:min(e.tpos, len(e.trace))] {
					if d.kind == dPick {
						picks = append(picks, int(d.val))
					}
				}
				w["__picks"] = picks
				e.res.Witnesses = append(e.res.Witnesses, w)
			}
		}
		switch end.reason {
		case "ok", "panic", "assertstop":
			e.res.Paths++
		case "pruned":
			e.res.Pruned++
		case "unwind":
			e.res.Paths++
			e.inconclusive("UNWIND-EXCEEDED " + end.detail)
		case "unsupported":
			e.inconclusive("UNSUPPORTED " + end.detail)
		case "budget":
			e.inconclusive("step-budget " + end.detail)
		case "deadlock":
			e.res.Paths++
		}
		e.res.Steps += e.steps
		if end.reason == "unsupported" {
			break
		}
		if e.cfg.StopAtFirst && len(e.res.Violations) > 0 {
			break
		}
		if e.cfg.Replay != nil {
			break
		}
		if !e.advance() {
			break
		}
		if e.res.Paths+e.res.Pruned >= e.cfg.MaxPaths {
			e.inconclusive(fmt.Sprintf("path-budget %d", e.cfg.MaxPaths))
			break
		}
		if !e.cfg.Deadline.IsZero() && time.Now().After(e.cfg.Deadline) {
			e.inconclusive("time-budget")
			break
		}
	}
	if e.sol != nil {
		e.res.Queries = e.sol.Queries
		e.res.QSat, e.res.QUnsat, e.res.QUnknown = e.sol.NSat, e.sol.NUnsat, e.sol.NUnk
		e.res.SolverS = e.sol.Time.Seconds()
		if len(e.sol.Errors) > 0 {
			e.inconclusive("solver-error: " + e.sol.Errors[0])
		}
	}
	e.res.WallS = time.Since(t0).Seconds()
	return e.res
}

func (e *Engine) runPath(fn *ssa.Function, pkg *ssa.Package) (end pathEnd) {
	defer func() {
		if r := recover(); r != nil {
			switch x := r.(type) {
			case pathEnd:
				end = x
			case unsupportedErr:
				end = pathEnd{"unsupported", x.msg}
			case *goPanic:
				// uncaught panic escaping the harness
				e.reportViolation("uncaught-panic", "panic", x.msg, e.posString(x.pos)+" "+x.fn, nil)
				end = pathEnd{"panic", x.msg}
			default:
				panic(r)
			}
		}
		if e.threads != nil {
			e.threads.killAll()
		}
	}()
	e.initPackage(pkg)
	args := make([]Value, len(fn.Params))
	for i, p := range fn.Params {
		v := 0
		if i < len(e.cfg.Params) {
			v = e.cfg.Params[i]
		}
		if w, _, ok := intWidth(p.Type()); ok {
			args[i] = e.tt.Const(w, uint64(int64(v)))
		} else if isBoolType(p.Type()) {
			args[i] = e.tt.Bool(v != 0)
		} else {
			panic(e.unsupported("harness parameter type " + p.Type().String()))
		}
	}
	e.callFunction(fn, args, nil, nil)
	return pathEnd{"ok", ""}
}

func (e *Engine) posString(p token.Pos) string {
	if !p.IsValid() {
		return "?"
	}
	pos := e.prog.Fset.Position(p)
	f := pos.Filename
	if i := strings.Index(f, "/repo/"); i >= 0 {
		f = f[i+6:]
	}
	return fmt.Sprintf("%s:%d", f, pos.Line)
}

// ---------- assertions ----------

func (e *Engine) stat(id string) *AssertStat {
	s := e.res.Asserts[id]
	if s == nil {
		s = &AssertStat{}
		e.res.Asserts[id] = s
	}
	return s
}

func (e *Engine) doAssert(cond *Term, id string) {
	st := e.stat(id)
	st.Checked++
	if e.cfg.Replay != nil {
		e.res.Outputs = append(e.res.Outputs, fmt.Sprintf("assert %s %v", id, cond == e.tt.True))
		if cond != e.tt.True {
			st.Violated++
			e.reportViolation(id, "assert", "", "", nil)
		}
		return
	}
	if cond == e.tt.True {
		if len(e.symvars) > 0 {
			st.Folded++
		}
		if len(e.res.Samples) < 3 && len(e.symvars) > 0 {
			e.res.Samples = append(e.res.Samples, fmt.Sprintf("assert %s: condition over %d symbolic inputs normalised to true (both sides are the same term), |pc|=%d", id, len(e.symvars), len(e.pc)))
		}
		return
	}
	st.Nontrivial++
	neg := e.tt.Not(cond)
	if cond == e.tt.False {
		st.Violated++
		e.reportViolation(id, "assert", "", "", nil)
		panic(pathEnd{"assertstop", id})
	}
	e.checkDeadline()
	r, _ := e.sol.Check(e.pc, neg, nil)
	if len(e.res.Samples) < 6 {
		e.res.Samples = append(e.res.Samples, fmt.Sprintf("assert %s under |pc|=%d: ¬(%s) is %s", id, len(e.pc), cond.str(4), r))
	}
	switch r {
	case Unsat:
		return
	case Unknown:
		e.inconclusive("solver-unknown at assert " + id)
		return
	}
	st.Violated++
	e.reportViolation(id, "assert", "", "", neg)
	// continue along the side where the assertion holds, if any
	if e.check(cond) != Sat {
		panic(pathEnd{"assertstop", id})
	}
	e.addPC(cond)
}

func (e *Engine) doAssume(cond *Term, id string) {
	if cond == e.tt.True {
		return
	}
	if cond == e.tt.False {
		e.res.Assumes[id]++
		panic(pathEnd{"pruned", "assume " + id})
	}
	if e.cfg.Replay != nil {
		panic(pathEnd{"pruned", "assume " + id})
	}
	if e.check(cond) != Sat {
		e.res.Assumes[id]++
		panic(pathEnd{"pruned", "assume " + id})
	}
	e.addPC(cond)
}

// model extracts concrete values of all symbolic inputs under pc ∧ extra.
func (e *Engine) model(extra *Term) map[string]any {
	m := map[string]any{}
	if e.sol == nil {
		return m
	}
	var terms []*Term
	type ref struct {
		sv  *symVar
		idx int
	}
	var refs []ref
	for i := range e.symvars {
		sv := &e.symvars[i]
		switch sv.kind {
		case "int", "bool":
			terms = append(terms, sv.t)
			refs = append(refs, ref{sv, -1})
		case "bytes":
			for j := 0; j < sv.n; j++ {
				terms = append(terms, e.tt.Select(sv.t, e.c64(uint64(j))))
				refs = append(refs, ref{sv, j})
			}
		}
	}
	e.checkDeadline()
	r, vals := e.sol.Check(e.pc, extra, terms)
	if r != Sat || vals == nil {
		return m
	}
	bytesOf := map[string][]byte{}
	for i, rf := range refs {
		v := vals[i]
		if v == nil {
			continue
		}
		switch rf.sv.kind {
		case "int":
			if v.w <= 64 {
				m[rf.sv.tag] = fmt.Sprint(v.lo) // decimal string: JSON numbers lose precision above 2^53
			} else {
				m[rf.sv.tag] = "0x" + v.Big().Text(16)
			}
		case "bool":
			m[rf.sv.tag] = v.lo == 1
		case "bytes":
			b := bytesOf[rf.sv.tag]
			if b == nil {
				b = make([]byte, rf.sv.n)
			}
			b[rf.idx] = byte(v.lo)
			bytesOf[rf.sv.tag] = b
		}
	}
	for k, b := range bytesOf {
		m[k] = fmt.Sprintf("%x", b)
	}
	for i := range e.symvars {
		sv := &e.symvars[i]
		if sv.kind == "bytes" && sv.n == 0 {
			m[sv.tag] = ""
		}
	}
	return m
}

func (e *Engine) reportViolation(id, kind, msg, pos string, extra *Term) {
	v := Violation{Harness: e.cfg.Harness, Params: e.cfg.Params, AssertID: id, Kind: kind, Msg: msg, Pos: pos}
	if kind == "assert" && strings.HasPrefix(id, "no-panic") && e.lastPanic != nil {
		v.Msg = e.lastPanic.msg
		v.Pos = e.posString(e.lastPanic.pos)
	}
	if e.cfg.Replay == nil {
		v.Model = e.model(extra)
		// record picks so the replay can follow the same enumerated choices
		var picks []int
		for _, d := range e.trace[:min(e.tpos, len(e.trace))] {
			if d.kind == dPick {
				picks = append(picks, int(d.val))
			}
		}
		v.Model["__picks"] = picks
	}
	if len(e.events) > 0 {
		v.Trace = append([]string(nil), e.events...)
	}
	// de-duplicate by (assert, pos)
	for _, o := range e.res.Violations {
		if o.AssertID == v.AssertID && o.Pos == v.Pos && o.Kind == v.Kind && len(e.res.Violations) >= 3 {
			return
		}
	}
	if len(e.res.Violations) < 50 {
		e.res.Violations = append(e.res.Violations, v)
	}
}

// ---------- package init & globals ----------

func (e *Engine) initAllowed(p *ssa.Package) bool {
	path := p.Pkg.Path()
	return strings.HasPrefix(path, "github.com/indexsupply/shovel") || e.ld.extraInit[path]
}

func (e *Engine) initPackage(p *ssa.Package) {
	if e.inited[p] {
		return
	}
	e.inited[p] = true
	if !e.initAllowed(p) {
		return
	}
	for _, imp := range p.Pkg.Imports() {
		if ip := e.prog.Package(imp); ip != nil {
			e.initPackage(ip)
		}
	}
	if init := p.Func("init"); init != nil {
		e.callFunction(init, nil, nil, nil)
	}
}

func (e *Engine) globalCell(g *ssa.Global) *Cell {
	if c, ok := e.globals[g]; ok {
		return c
	}
	elem := g.Type().(*types.Pointer).Elem()
	c := e.newCell(elem)
	e.globals[g] = c
	if g.Pkg != nil && !e.initAllowed(g.Pkg) {
		// lazily opaque external global
		name := g.Pkg.Pkg.Path() + "." + g.Name()
		if types.Identical(elem, types.Universe.Lookup("error").Type()) {
			c.v = e.sentinelError(name)
		}
		e.res.Stubs["extern-global "+name]++
	}
	return c
}

func (e *Engine) sentinelError(name string) Value {
	if v, ok := e.sentinels[name]; ok {
		return v
	}
	ep := e.prog.ImportedPackage("errors")
	if ep == nil {
		panic(e.unsupported("errors package not loaded"))
	}
	t := ep.Type("errorString").Type()
	c := e.newCell(t)
	c.v.(*Agg).cells[0].v = e.concStr(name)
	v := &Iface{typ: types.NewPointer(t), val: &Pointer{cell: c}}
	e.sentinels[name] = v
	return v
}

func sortedKeys[V any](m map[string]V) []string {
	ks := make([]string, 0, len(m))
	for k := range m {
		ks = append(ks, k)
	}
	sort.Strings(ks)
	return ks
}

// checkDeadline ends the current path when the run's wall-clock budget is
// exhausted (reported as inconclusive, never as held).
func (e *Engine) checkDeadline() {
	if !e.cfg.Deadline.IsZero() && time.Now().After(e.cfg.Deadline) {
		panic(pathEnd{"budget", "wall-clock budget of the run"})
	}
}
