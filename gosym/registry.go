package main

// Registered property checks: which harness instances (shapes) run per tier.

func rangeInts(lo, hi int) []int {
	var out []int
	for i := lo; i <= hi; i++ {
		out = append(out, i)
	}
	return out
}

func init() {
	register(&PropSpec{
		ID:   "C17",
		Pkgs: []string{"./eth", "./bint"},
		Runs: func(tier string) []HRun {
			var rs []HRun
			maxTok, maxBytesTok, rt := 22, 16, []int{0, 1, 4, 8}
			prior := [][2]int{{0, 0}, {2, 2}, {5, 8}, {9, 16}}
			if tier == "thorough" {
				maxTok, maxBytesTok, rt = 40, 70, []int{0, 1, 2, 4, 8, 20, 32}
				prior = [][2]int{{0, 0}, {1, 1}, {2, 2}, {5, 8}, {9, 16}, {33, 40}, {0, 40}}
			}
			for n := 0; n <= maxTok; n++ {
				rs = append(rs, HRun{Pkg: "./eth", Fn: "ZZ_C17_Uint64", Params: []int{n}})
			}
			for n := 0; n <= 8; n++ {
				rs = append(rs, HRun{Pkg: "./eth", Fn: "ZZ_C17_Byte", Params: []int{n}})
			}
			for n := 0; n <= maxBytesTok; n++ {
				for _, p := range prior {
					if tier == "quick" && n > 10 && p[1] != 8 {
						continue
					}
					rs = append(rs, HRun{Pkg: "./eth", Fn: "ZZ_C17_Bytes", Params: []int{n, p[0], p[1]}})
				}
			}
			for _, m := range []int{0, 1, 5, 9, 33} {
				for _, p := range prior {
					rs = append(rs, HRun{Pkg: "./eth", Fn: "ZZ_C17_Write", Params: []int{m, p[0], p[1]}})
				}
			}
			for _, n := range rt {
				rs = append(rs, HRun{Pkg: "./eth", Fn: "ZZ_C17_HexRoundTrip", Params: []int{n}, Unwind: 200})
			}
			for n := 0; n <= 7; n++ {
				rs = append(rs, HRun{Pkg: "./eth", Fn: "ZZ_C17_DecodeHexTotal", Params: []int{n}})
			}
			for w := 1; w <= 32; w++ {
				if tier == "quick" && w > 9 && w != 32 {
					continue
				}
				rs = append(rs, HRun{Pkg: "./bint", Fn: "ZZ_C17_RoundTrip", Params: []int{w}})
			}
			rs = append(rs, HRun{Pkg: "./bint", Fn: "ZZ_C17_EncodeNil"})
			return rs
		},
		Assumptions: []string{
			"fmt.Sprintf(\"0x%x\") in Bytes.MarshalJSON is modelled (lower-case hex of each byte); fmt itself is trusted",
			"encoding/hex is executed from its own SSA (not stubbed)",
			"allocator capacity rounding of append is not modelled exactly (new capacity = max(needed, 2*old) rounded to 8)",
		},
		Bounds: map[string]string{
			"quick":    "quantity tokens of every length 0..22 bytes with all bytes symbolic (covers every 64-bit quantity in every spelling, plus 17/18-digit over-long ones); byte-string tokens 0..16 bytes into destinations with prior (len,cap) in {(0,0),(2,2),(5,8),(9,16)} and symbolic prior content; Write of 0,1,5,9,33 bytes; hex round trip of 0,1,4,8 bytes; DecodeHex on every string of 0..7 bytes; bint pad widths 1..9 and 32 with n a free 64-bit value",
			"thorough": "quantity tokens 0..40 bytes; byte-string tokens 0..70 bytes (32-byte hashes) into 7 prior shapes; hex round trip up to 32 bytes; bint pad widths 1..32",
		},
		Outside: []string{"byte strings longer than the stated bound (the decode loop is uniform in the length; multi-KiB inputs are not explored)", "goccy/go-json's tokenisation (tokens are handed to UnmarshalJSON as arbitrary byte strings)"},
	})
}

func init() {
	register(&PropSpec{
		ID:   "C10",
		Pkgs: []string{"./dig"},
		Runs: func(tier string) []HRun {
			var rs []HRun
			sizes := []int{0, 20, 32, 64, 96}
			if tier == "thorough" {
				sizes = []int{0, 1, 31, 32, 33, 64, 95, 96, 128, 160, 192}
			}
			for shape := 0; shape < 26; shape++ {
				for _, n := range sizes {
					if shape == 21 && n > 128 {
						// measured: 390 s at 160 bytes, 1100 s with a solver timeout at 192: not claimed
						continue
					}
					rs = append(rs, HRun{Pkg: "./dig", Fn: "ZZ_C10_Scan", Params: []int{shape, n, 0}})
					// measured: the extra-capacity variant takes 10 min at 128-192 bytes for
				// the nested dynamic shapes and exceeds 25 min for shape 6; registered up to 96
				if n > 0 && (n <= 64 || (tier == "thorough" && n <= 96)) {
						rs = append(rs, HRun{Pkg: "./dig", Fn: "ZZ_C10_Scan", Params: []int{shape, n, 32}})
					}
				}
			}
			return rs
		},
		Assumptions: []string{
			"type trees are the 26 catalogue entries of harness/dig/common.go, built by the real Event.ABIType (case-split, not solver-quantified)",
			"data length and capacity are case-split; all content bytes (through the capacity) are solver-quantified, so every 32-byte word ranges over all 2^256 values including 2^63, 2^64-32, len, len-31",
		},
		Bounds: map[string]string{
			"quick":    "data lengths {0,20,32,64,96} bytes, capacity = len or len+32; loop unwinding len/32+3 (exceeding it is reported, never ignored)",
			"thorough": "data lengths {0,1,31,32,33,64,95,96,128,160,192} bytes with capacity = len (shape 21, a dynamic array of fixed arrays of a mixed tuple, up to 128: one query timed out at 192); capacity = len+32 (bytes beyond the length must not influence the outcome) for lengths up to 96 (the larger ones ran past 25 minutes per instance for the nested dynamic shapes and are not claimed)",
		},
		Outside: []string{"inputs longer than the bound", "type trees outside the catalogue", "the polynomial row growth of nested dynamic arrays whose offsets alias one tail (rows are bounded by (len/32+1)^2, asserted)"},
	})
}

func init() {
	register(&PropSpec{
		ID:   "C09",
		Pkgs: []string{"./dig"},
		Runs: func(tier string) []HRun {
			var rs []HRun
			nds := []int{1, 2}
			alens, blens := []int{0, 2}, []int{0, 5, 32, 33}
			if tier == "thorough" {
				nds = []int{1, 2, 3}
				alens, blens = []int{0, 1, 2, 3}, []int{0, 1, 31, 32, 33, 64, 70}
			}
			for base := 0; base < 8; base++ {
				for form := 0; form < 5; form++ {
					if form == 1 || form == 4 {
						rs = append(rs, HRun{Pkg: "./dig", Fn: "ZZ_C09_Parse", Params: []int{base, form, 0}})
						continue
					}
					for _, nd := range nds {
						rs = append(rs, HRun{Pkg: "./dig", Fn: "ZZ_C09_Parse", Params: []int{base, form, nd}})
					}
				}
			}
			for shape := 0; shape < 26; shape++ {
				for _, a := range alens {
					for _, b := range blens {
						rs = append(rs, HRun{Pkg: "./dig", Fn: "ZZ_C09_Decode", Params: []int{shape, a, b}, Unwind: 400})
					}
				}
			}
			return rs
		},
		Assumptions: []string{
			"array length digits are symbolic ASCII digits without a leading zero; the number of digits is case-split",
			"type trees are the 26 catalogue entries (harness/dig/common.go) built by the real Event.ABIType; their values (every 32-byte word, every bytes/string content) are solver-quantified, array and byte-string lengths are case-split",
			"the reference ABI encoder and the reference row rule live in the harness (harness/dig/c09.go) and are compiled natively for replay",
			"each Result is used twice with different values and lengths (repeated use of one decoder instance)",
		},
		Bounds: map[string]string{
			"quick":    "1-2 length digits (k in 1..99); dynamic array lengths {0,2}; bytes/string lengths {0,5,32,33}",
			"thorough": "1-3 length digits (k in 1..999); dynamic array lengths 0..3; bytes/string lengths {0,1,31,32,33,64,70}",
		},
		Outside: []string{"out-of-order or overlapping tails (legal ABI never produced by Solidity)", "T[0]", "selected arrays nested inside tuples that are array elements (the row rule is undefined there, as the property says)"},
	})
}

func popIdx(layout int) int {
	n := 0
	for i := 0; i < 3; i++ {
		if layout&(1<<(2*uint(i))) != 0 {
			n++
		}
	}
	return n
}

func init() {
	register(&PropSpec{
		ID:   "C11",
		Pkgs: []string{"./dig"},
		Runs: func(tier string) []HRun {
			var rs []HRun
			types := []int{0, 1 + 1*6 + 0*36, 2 + 3*6 + 4*36, 5 + 0*6 + 1*36}
			if tier == "thorough" {
				types = nil
				for t := 0; t < 216; t += 5 {
					types = append(types, t)
				}
			}
			for layout := 0; layout < 64; layout++ {
				for _, t := range types {
					rs = append(rs, HRun{Pkg: "./dig", Fn: "ZZ_C11_Log", Params: []int{layout, t, popIdx(layout) + 1, 1}})
				}
			}
			// array inputs: one row per element, element mapped by its leaf type
			for elem := 0; elem < 6; elem++ {
				for second := 0; second <= 1; second++ {
					cfgs := [][2]int{{0, 1}, {0, 2}, {2, 0}}
					if tier == "thorough" {
						cfgs = [][2]int{{0, 1}, {0, 2}, {0, 3}, {1, 0}, {2, 0}, {3, 0}}
					}
					for _, c := range cfgs {
						rs = append(rs, HRun{Pkg: "./dig", Fn: "ZZ_C11_Array", Params: []int{elem, c[0], c[1], second}})
					}
				}
			}
			for m := 0; m < 4; m++ {
				rs = append(rs, HRun{Pkg: "./dig", Fn: "ZZ_C11_Insert", Params: []int{m}})
			}
			rs = append(rs, HRun{Pkg: "./dig", Fn: "ZZ_C11_NegInt"})
			return rs
		},
		Assumptions: []string{
			"event layouts: 3 inputs, every combination of indexed/selected (64 layouts, case-split) and leaf types from {uint256,address,bool,bytes32,int256,uint8}; topics, log data and every block/tx/log field are solver-quantified",
			"array inputs (ZZ_C11_Array): T[] with 1-2 (thorough 3) elements and T[2] (thorough T[1..3]) for T in {address,uint256,int256,uint8,bytes32,uint64}, alone or followed by a selected address input; data is the reference ABI encoding (harness/dig/c09.go) of symbolic elements; arrays of bool/string/bytes are NOT asserted: dbtype matches those three names exactly, so their array elements are stored as the raw 32-byte word / bytes (an observation, not claimed either way)",
			"the unsigned decimal conversion (holiman uint256.Dec) is outside: integer cells are compared as 256-bit limbs, and in ZZ_C11_NegInt Dec is an uninterpreted function of the 256-bit value; the repo's own signed rendering (negInt.Value: minus sign iff the top bit is set, then the decimal of the two's-complement magnitude, computed here limb by limb) is decided for every 256-bit value",
			"Integration.Insert is run over blocks with two transactions / two trace actions / two logs / three logs of the event interleaved with logs of other events (same signature hash with another topic count, another hash) and the rows are read when COPY drains them (values held by reference are observed when stored)",
			"the path JSON -> client is covered by C07/C14, COPY -> stored value (pgx binary encoding, Postgres) is outside",
		},
		Bounds: map[string]string{
			"quick":    "64 layouts x 4 type assignments; one log per run; block-field columns block_num, log_idx, log_addr, tx_hash, abi_idx, ig_name, src_name",
			"thorough": "64 layouts x 44 type assignments",
		},
		Outside: []string{"events with more than 3 scalar inputs; arrays of dynamic types, nested arrays and tuples in the column check (decoding of those is C09)", "pgx COPY encoding and Postgres storage"},
	})
	register(&PropSpec{
		ID:   "C13",
		Pkgs: []string{"./dig"},
		Runs: func(tier string) []HRun {
			var rs []HRun
			layouts := []int{0, 1, 5, 21, 63, 13, 45, 2, 42, 4, 16, 17, 20, 28, 52} // incl. indexed inputs after non-indexed ones
			if tier == "thorough" {
				layouts = rangeInts(0, 63)
			}
			for _, l := range layouts {
				for nt := 0; nt <= 5; nt++ {
					for m := 0; m <= 1; m++ {
						rs = append(rs, HRun{Pkg: "./dig", Fn: "ZZ_C11_Log", Params: []int{l, 0, nt, m}})
					}
				}
			}
			nl := []int{0, 1, 3}
			if tier == "thorough" {
				nl = []int{0, 1, 2, 3, 8, 20}
			}
			for shape := 0; shape <= 6; shape++ {
				for _, n := range nl {
					rs = append(rs, HRun{Pkg: "./dig", Fn: "ZZ_C13_Signature", Params: []int{shape, n}})
				}
			}
			rs = append(rs, HRun{Pkg: "./dig", Fn: "ZZ_C13_Signature", Params: []int{0, -1}})
			// signatures of more than 256 bytes that differ only in their last input
			rs = append(rs, HRun{Pkg: "./dig", Fn: "ZZ_C13_TwoEvents", Params: []int{7, 8}, Label: "long-signatures"},
				HRun{Pkg: "./dig", Fn: "ZZ_C13_Signature", Params: []int{7, 3}, Label: "long-signatures"},
				HRun{Pkg: "./dig", Fn: "ZZ_C13_Signature", Params: []int{8, 3}, Label: "long-signatures"})
			// two events of the same name in one process: each hash is of its own signature
			for a := 0; a <= 6; a++ {
				for b := a + 1; b <= 6; b++ {
					if tier == "thorough" || b == a+1 || a == 0 {
						rs = append(rs, HRun{Pkg: "./dig", Fn: "ZZ_C13_TwoEvents", Params: []int{a, b}})
					}
				}
			}
			return rs
		},
		Assumptions: []string{
			"Keccak-256 (golang.org/x/crypto/sha3) is trusted: the engine computes it natively on concrete input; one known-answer vector (Transfer(address,address,uint256)) is evaluated as a smoke test, it is not solver evidence",
			"gate: topic count 0..5 is case-split, all topic bytes are solver-quantified (match=0) or topic0 is set to the stored signature hash (match=1)",
			"two events named alike with different inputs (ZZ_C13_TwoEvents, concrete: decided by the engine's evaluation, Keccak computed natively): each signature hash equals the hash of that event's own canonical signature, whatever was hashed before in the same process",
			"signature: event name is a symbolic string; the input type trees are 7 catalogue shapes (tuples, tuple arrays, nested tuples, fixed and dynamic arrays)",
		},
		Bounds: map[string]string{
			"quick":    "9 indexed layouts x topic counts 0..5 x {arbitrary topic0, matching topic0}; signature shapes 0..6 with event names of 0,1,3 symbolic bytes",
			"thorough": "all 64 layouts; names up to 20 bytes",
		},
		Outside: []string{"Keccak-256 itself (hashing is a declared weak target for SMT)", "anonymous events"},
	})
}

func init() {
	register(&PropSpec{
		ID:   "C12",
		Pkgs: []string{"./dig"},
		Runs: func(tier string) []HRun {
			var rs []HRun
			bshapes := [][3]int{{20, 1, 20}, {20, 2, 20}, {32, 1, 32}, {32, 1, 20}, {4, 1, 4}, {4, 2, 1}, {0, 1, 0}, {3, 1, 5}, {20, 0, 0}}
			if tier == "thorough" {
				bshapes = append(bshapes, [3]int{32, 3, 32}, [3]int{32, 2, 4}, [3]int{8, 3, 8}, [3]int{1, 1, 1}, [3]int{33, 1, 32})
			}
			for op := 0; op < 6; op++ {
				for _, b := range bshapes {
					if tier == "quick" && b[0] >= 20 && b[1] > 1 && op > 1 {
						continue
					}
					rs = append(rs, HRun{Pkg: "./dig", Fn: "ZZ_C12_Bytes", Params: []int{op, b[0], b[1], b[2]}, Unwind: 300})
				}
				for argi := 0; argi < 5; argi++ {
					for kind := 0; kind < 2; kind++ {
						rs = append(rs, HRun{Pkg: "./dig", Fn: "ZZ_C12_Uint64", Params: []int{op, argi, kind}})
					}
				}
				for argi := 0; argi < 4; argi++ {
					rs = append(rs, HRun{Pkg: "./dig", Fn: "ZZ_C12_Uint256", Params: []int{op, argi}})
				}
				for _, sl := range []int{0, 4, 6, 12} {
					for na := 0; na <= 3; na++ {
						rs = append(rs, HRun{Pkg: "./dig", Fn: "ZZ_C12_String", Params: []int{op, sl, na}})
					}
				}
			}
			// the fold of transaction-level and trace-level integrations (processTx)
			for level := 0; level <= 1; level++ {
				for op1 := 0; op1 < 4; op1++ {
					for op2 := 0; op2 < 4; op2++ {
						for agg := 0; agg < 4; agg++ {
							if tier == "quick" && (op1 == 1 || op2 == 3 || agg == 3) {
								continue
							}
							rs = append(rs, HRun{Pkg: "./dig", Fn: "ZZ_C12_TxFold", Params: []int{op1, op2, agg, level}})
						}
					}
				}
			}
			// several rows from one log: verdicts are per row
			for op1 := 0; op1 < 4; op1++ {
				alens := []int{2}
				if tier == "thorough" {
					alens = []int{1, 2, 3}
				}
				for _, al := range alens {
					rs = append(rs, HRun{Pkg: "./dig", Fn: "ZZ_C12_Rows", Params: []int{op1, 0, 0, al, 0}})
					for op2 := 0; op2 < 4; op2++ {
						for agg := 0; agg < 4; agg++ {
							if tier == "quick" && (op2 == 1 || agg == 3) {
								continue
							}
							rs = append(rs, HRun{Pkg: "./dig", Fn: "ZZ_C12_Rows", Params: []int{op1, op2, agg, al, 1}})
						}
					}
				}
			}
			for op2 := 0; op2 < 4; op2++ {
				for agg := 0; agg < 4; agg++ {
					for na := 0; na <= 2; na++ {
						rs = append(rs, HRun{Pkg: "./dig", Fn: "ZZ_C12_Ref", Params: []int{op2, agg, na}})
					}
				}
			}
			for op1 := -1; op1 < 4; op1++ {
				for op2 := 0; op2 < 4; op2++ {
					for agg := 0; agg < 4; agg++ {
						for na := 0; na <= 2; na++ {
							rs = append(rs, HRun{Pkg: "./dig", Fn: "ZZ_C12_Fold", Params: []int{op1, op2, agg, na}})
							if na >= 1 && agg <= 1 && (op1 == -1 || tier == "thorough") {
								// whole addresses mixed with a shorter byte pattern
								rs = append(rs, HRun{Pkg: "./dig", Fn: "ZZ_C12_Fold", Params: []int{op1, op2, agg, 10 + na}, Label: "short-address-pattern"})
							}
						}
					}
				}
			}
			return rs
		},
		Assumptions: []string{
			"per-filter semantics: field values and byte-string arguments are solver-quantified (hex argument text is built from symbolic bytes); decimal arguments of integer filters are 5 (uint64) / 4 (uint256) boundary constants, the field value is a free 64/256-bit value; string arguments come from a 4-word vocabulary, the field is a symbolic string",
			"fold and pushdown: filter arguments are concrete constants, the log's topics and address are solver-quantified; eth_getLogs is assumed to return exactly the logs whose address is in the address list (if non-empty) and whose topic0 is in topics[0] (documented JSON-RPC semantics)",
			"transaction-level and trace-level integrations (ZZ_C12_TxFold): two block fields (to / signer or trace to / from, symbolic 20 bytes) carry byte-string filters, every aggregation: the row is emitted iff the declared fold accepts (the third fold site, processTx)",
			"rows of one log (ZZ_C12_Rows): a selected bytes32[] input with 2 (thorough 1..3) symbolic elements carrying a byte-string filter, optionally a second filter on log_addr, every aggregation; the row of element i is emitted iff the fold of element i's own verdicts accepts (identified by abi_idx), each element at most once",
			"reference filters (filter_ref): the referenced table's content is a symbolic membership answer of the lookup (ZZ_C12_Ref); that the lookup runs on the inserting transaction is not checked here",
		},
		Bounds: map[string]string{
			"quick":    "operators x {bytes shapes (field len, #args, arg len) in 9 shapes, uint64 x 5 args x 2 kinds, uint256 x 4 args, strings of 0/4/6/12 bytes x 0..3 args}; fold: op1 in {none,contains,!contains,eq,ne} on an indexed bytes32 input x op2 on log_addr x 4 aggregations x 0..2 address args",
			"thorough": "14 bytes shapes",
		},
		Outside: []string{"value kinds Accept silently leaves unfiltered (eth.Byte, bool, signed ints)", "filter_ref lookups"},
	})
}

func init() {
	register(&PropSpec{
		ID:   "C07",
		Pkgs: []string{"./jrpc2", "./eth"},
		Runs: func(tier string) []HRun {
			var rs []HRun
			for plan := 0; plan < 12; plan++ {
				type lb struct{ l, budget int }
				// quick: limit 1..3 for block-only plans, 1..2 otherwise, budget 1
				cfgs := []lb{{1, 1}, {2, 1}}
				if plan < 3 {
					cfgs = append(cfgs, lb{3, 1})
				}
				if tier == "thorough" {
					// measured: limit 3 with budget 1 takes up to 10 min per plan,
					// limit 3 budget 2 and limit 4 budget 1 exceed 10 min for the
					// plans with per-transaction items and are not registered
					cfgs = []lb{{1, 2}, {2, 2}, {3, 1}}
					if plan < 3 {
						cfgs = append(cfgs, lb{3, 2}, lb{4, 2})
					}
				}
				for _, c := range cfgs {
					rs = append(rs, HRun{Pkg: "./jrpc2", Fn: "ZZ_C07_Get", Params: []int{plan, c.l, 1, c.budget}, MaxPaths: 100000})
					if c.l <= 2 {
						rs = append(rs, HRun{Pkg: "./jrpc2", Fn: "ZZ_C07_Get", Params: []int{plan, c.l, 0, c.budget}, MaxPaths: 100000})
					}
				}
			}
			rs = append(rs, HRun{Pkg: "./jrpc2", Fn: "ZZ_C07_Do"})
			// a block number that does not fit in 64 bits is an error, never a wrapped number
			for _, n := range []int{20, 21, 22} {
				rs = append(rs, HRun{Pkg: "./eth", Fn: "ZZ_C17_Uint64", Params: []int{n}, Label: "over-long-quantity-is-rejected"})
			}
			rs = append(rs, HRun{Pkg: "./jrpc2", Fn: "ZZ_C07_HeadHash", Params: []int{0}}, HRun{Pkg: "./jrpc2", Fn: "ZZ_C07_HeadHash", Params: []int{1}})
			return rs
		},
		Assumptions: []string{
			"the node is cut at (*Client).do (harness/jrpc2/stub.go, compiled natively for replay with the same cut): after a syntactically valid body the decoder fills the destination as contract R1 of DESIGN 3.1 says (pre-sized slices keep pointer fields, null -> nil pointer, shorter/longer batch truncates/appends, absent member leaves the field)",
			"quantities are decoded by eth.Uint64 before the client sees them: that a hex quantity of more than 16 digits that does not fit in 64 bits is an error (not a wrapped number that could pass for the requested block) is decided by the ZZ_C17_Uint64 runs at 16-18 digits",
			"every decoded value is solver-quantified: block numbers, hashes, parent hashes, transaction/log indices, item block numbers, error codes (0 = no error member), transport failure",
			"structural corruptions (null result, batch one shorter / one longer, 0 or 2 items instead of 1, block without transactions) are case-split under a budget of 1 (quick) / 2 (thorough) per request",
			"a log entry always carries its own object (logIndex/address/topics/data not all absent)",
			"elements repeating the identity of another element of the same answer (same block+logIndex, same block+tx) are excused from the attachment check: de-duplication is accepted behaviour",
			"HTTP status / undecodable body (ZZ_C07_Do): the REAL (*Client).do is executed with the library calls inside it cut (io.Pipe, goccy Encoder/Decoder, http.NewRequest, http.Client.Do, io.ReadAll; harness/jrpc2/c07do.go): the transport fails or answers with any status 100..599 (solver integer) and a body that decodes or does not (solver Boolean); do() must return an error unless transport ok, status 2xx and body decodes, and count the request only then. Natively the same harness installs a RoundTripper and runs the real net/http and goccy code",
		},
		Bounds: map[string]string{
			"quick":    "12 data plans ({none,headers,blocks} x {none,logs,receipts,traces}); limit 1..3 for block-only plans, 1..2 otherwise; start a free value < 2^62; with and without error members / transport errors",
			"thorough": "limit 1..2 with corruption budget 2 and limit 3 with budget 1 for every plan; limit 3..4 with budget 2 for the block-only plans (limit 3 budget 2 / limit 4 for plans with per-transaction items ran past 10 minutes per instance and are not claimed)",
		},
		Outside: []string{"net/http and goccy/go-json themselves (which truncated bodies fail to decode, gzip, redirects followed by net/http)", "JSON-RPC id matching (the client never checks ids)"},
	})
}

func init() {
	convAssume := []string{
		"Postgres is cut at pgxpool.Pool.Begin / pgx.Tx (harness/shovel/pgmodel.go, Go, compiled natively for replay with the same cut): per (src_name, ig_name) pair the cursor rows of shovel.task_updates are explicit, the pair's table rows are the interval lo < block_num <= hi (exact while the rows form an interval, which the invariant asserts); every statement's predicate is parsed from its SQL text; the CTE of latestDependency and the unique index (ig_name, src_name, num) are modelled by hand; READ COMMITTED visibility between sessions is not modelled",
		"the source is a stub implementing shovel.Source on a hash-linked chain whose block hashes are an injective uninterpreted function of (version, number) (no hash collisions); Get returns exactly the requested consecutive blocks (the C07 post-condition)",
		"the destination stub records one row per block in the open transaction; Delete is the REAL dig.Integration.Delete issuing its SQL through the model",
		"goroutines of errgroup run sequentially in spawn order (and in reverse order in the thorough tier); order-dependence beyond that is C18's subject",
		"one inductive step: the pre-state is an ARBITRARY committed state satisfying the invariant (k cursor rows with arbitrary increasing numbers, rows covering exactly (lo, top]), so histories of any length and any earlier batch sizes are covered; all block numbers < 2^62",
	}
	steps := func(tier string) (ks, batches, concs []int) {
		if tier == "thorough" {
			return []int{0, 1, 2, 3}, []int{1, 2, 3, 4, 6}, []int{1, 2, 3, 4, 8}
		}
		return []int{0, 1, 2}, []int{1, 2, 3}, []int{1, 2, 4}
	}
	register(&PropSpec{
		ID:   "C01",
		Pkgs: []string{"./shovel", "./jrpc2", "./dig"},
		Runs: func(tier string) []HRun {
			var rs []HRun
			ks, bs, cs := steps(tier)
			for _, k := range ks {
				for _, b := range bs {
					for _, c := range cs {
						rs = append(rs, HRun{Pkg: "./shovel", Fn: "ZZ_C01_Step", Params: []int{k, b, c}})
						if tier == "thorough" {
							rs = append(rs, HRun{Pkg: "./shovel", Fn: "ZZ_C01_Step", Params: []int{k, b, c}, GoOrder: 1, Label: "reverse-goroutine-order"})
						}
					}
				}
			}
			// a retried or repeated fetch of the same range (cache hit) yields each item once
			for kind := 0; kind <= 2; kind++ {
				rs = append(rs, HRun{Pkg: "./jrpc2", Fn: "ZZ_C08_Seq", Params: []int{kind, 2, 2, 1}, MaxPaths: 200000, Label: "refetch-yields-items-once"})
			}
			// a partition whose fetch fails fails the step (no gap is recorded), also when blocks carry no hashes
			rs = append(rs, HRun{Pkg: "./shovel", Fn: "ZZ_C02_FaultsPlain", Params: []int{1, 2, 2, 1}, MaxPaths: 200000, Label: "failed-partition-fails-the-step", NoReplay: true},
				HRun{Pkg: "./shovel", Fn: "ZZ_C02_FaultsPlain", Params: []int{1, 3, 3, 1}, MaxPaths: 200000, Label: "failed-partition-fails-the-step", NoReplay: true})
			// the rows of one Insert call survive items that yield no row (logs of other events in between)
			for m := 0; m < 4; m++ {
				rs = append(rs, HRun{Pkg: "./dig", Fn: "ZZ_C11_Insert", Params: []int{m}, Label: "every-item-of-the-batch-reaches-copy"})
			}
			return rs
		},
		Assumptions: append([]string{"what Destination.Insert derives from a block (rows per log/tx/trace) is decided by C09/C11/C12/C13/C14; this check decides that each block in range is handed to Insert exactly once and that the position advances by exactly those blocks; that one Insert call hands every item's row to COPY (two transactions / trace actions / logs, and logs of other events between the declared event's logs) is decided by the ZZ_C11_Insert runs"}, convAssume...),
		Bounds:      map[string]string{"quick": "k in 0..2 prior cursor rows; batch_size in {1,2,3} x concurrency in {1,2,4} (includes batch < concurrency and non-divisible pairs); head, start, cursor numbers free 64-bit values < 2^62", "thorough": "k in 0..3; batch in {1,2,3,4,6} x concurrency in {1,2,3,4,8}; both goroutine orders"},
		Outside:     []string{"real pgx/COPY and JSON", "pollDuration timing", "batch sizes above the bound (the partition arithmetic is checked for the listed pairs only)"},
	})
	register(&PropSpec{
		ID:   "C06",
		Pkgs: []string{"./shovel"},
		Runs: func(tier string) []HRun {
			var rs []HRun
			bs := []int{1, 3}
			if tier == "thorough" {
				bs = []int{1, 2, 3, 5, 8}
			}
			for k := 0; k <= 1; k++ {
				for _, b := range bs {
					for sm := 0; sm <= 1; sm++ {
						rs = append(rs, HRun{Pkg: "./shovel", Fn: "ZZ_C06_Range", Params: []int{k, b, sm}})
						rs = append(rs, HRun{Pkg: "./shovel", Fn: "ZZ_C06_RangeDep", Params: []int{k, b, sm}})
						// a batch cut short by stop with more workers than blocks left
						rs = append(rs, HRun{Pkg: "./shovel", Fn: "ZZ_C06_RangeConc", Params: []int{k, b, sm, 3}})
						if tier == "thorough" && b > 1 {
							rs = append(rs, HRun{Pkg: "./shovel", Fn: "ZZ_C06_RangeConc", Params: []int{k, b, sm, 2}})
						}
					}
				}
			}
			return rs
		},
		Assumptions: append([]string{"start, stop, head and the prior position are free 64-bit values < 2^62 (start = 0 is the separate 'no start configured' mode); ZZ_C06_RangeConc repeats the step with a partitioned load (concurrency 3, thorough also 2); ZZ_C06_RangeDep repeats the step for an integration with one dependency whose recorded position is another free value (stop/start/resume bounds must hold for every dependency position); a block above the head has no hash (the node answers null, which is an error after fix c4a5d7e)"}, convAssume...),
		Bounds:      map[string]string{"quick": "with/without prior position x batch in {1,3} x start configured or not", "thorough": "batch in {1,2,3,5,8}"},
		Outside:     []string{"restarts are covered as 'resume from an arbitrary recorded position'"},
	})
	register(&PropSpec{
		ID:   "C03",
		Pkgs: []string{"./shovel", "./jrpc2"},
		Runs: func(tier string) []HRun {
			var rs []HRun
			type cfg struct{ k, canon, batch, steps int }
			cs := []cfg{{2, 1, 1, 2}, {2, 1, 2, 2}, {3, 1, 2, 3}, {3, 2, 2, 2}, {2, 2, 2, 1}, {3, 3, 1, 1}}
			if tier == "thorough" {
				cs = append(cs, cfg{2, 1, 3, 2}, cfg{3, 1, 3, 3}, cfg{4, 1, 2, 4}, cfg{4, 2, 2, 3}, cfg{3, 2, 4, 2})
			}
			for _, c := range cs {
				rs = append(rs, HRun{Pkg: "./shovel", Fn: "ZZ_C03_Reorg", Params: []int{c.k, c.canon, c.batch, c.steps}})
			}
			// the block is replaced between the calls of one Get, or between two Gets of the same
			// range through the caching client: a successful Get returns ONE version of the block
			for plan := 0; plan <= 3; plan++ {
				for _, ag := range [][2]int{{1, 1}, {2, 2}, {2, 4}, {3, 4}, {0, 1}, {9, 2}} {
					rs = append(rs, HRun{Pkg: "./jrpc2", Fn: "ZZ_C03_Switch", Params: []int{plan, ag[0], ag[1]}, Label: "one-version-per-block"})
				}
				if tier == "thorough" {
					for _, ag := range [][2]int{{1, 4}, {3, 2}, {4, 4}, {1, 2}, {2, 3}} {
						rs = append(rs, HRun{Pkg: "./jrpc2", Fn: "ZZ_C03_Switch", Params: []int{plan, ag[0], ag[1]}, Label: "one-version-per-block"})
					}
				}
			}
			// reorg between the RPC answers of one fetch: every accepted segment is hash-linked
			for _, plan := range []int{1, 2, 4, 5} {
				for _, l := range []int{2, 3} {
					rs = append(rs, HRun{Pkg: "./jrpc2", Fn: "ZZ_C07_Get", Params: []int{plan, l, 1, 0}, MaxPaths: 100000, Label: "segment-linkage"})
				}
			}
			return rs
		},
		Assumptions: append([]string{
			"reorgs between RPC calls and with a shared caching client (ZZ_C03_Switch): the honest node replaces block 100 (new symbolic hash, timestamp, log data, gas used; same parent) before node call number `at` of 1-4 successive Gets of the same range through the real caching client (maxreads 2), for the plans headers+logs, blocks+logs, blocks+receipts, headers+receipts; every successful Get must return one version of the block (header fields, logs and receipts belong to the block whose hash it presents), and after the cached segment has expired the retries end with the current version",
			"the chain is frozen at its canonical version while the task converges ('once the source settles'); the top (k - canon) cursor rows carry orphaned hashes, the oldest retained cursor row is canonical (forks below the retained history are outside the property as well)",
			"reorgs landing between the RPC answers of one fetch: every element of a batch answer has arbitrary (solver-chosen) hash and parent hash, i.e. each may come from a different chain version; an accepted segment must be hash-linked throughout (ZZ_C07_Get, plans with headers/blocks, limit 2..3); linkage across partitions of one load() and between the head query and the fetch is not covered",
		}, convAssume...),
		Bounds:  map[string]string{"quick": "(k cursor rows, canonical prefix, batch, steps) in {(2,1,1,2),(2,1,2,2),(3,1,2,3),(3,2,2,2),(2,2,2,1),(3,3,1,1)}; cursor numbers arbitrary increasing (any earlier batch sizes)", "thorough": "adds fork depths up to 3 rows and batch up to 4"},
		Outside: []string{"the 1000-iteration cap of the unwind loop", "reorgs deeper than the retained cursor history", "a tip orphaned at the same height is only noticed when the head grows"},
	})
	register(&PropSpec{
		ID:   "C02",
		Pkgs: []string{"./shovel"},
		Runs: func(tier string) []HRun {
			var rs []HRun
			type cfg struct{ k, canon, batch, conc, single int }
			cs := []cfg{{1, 1, 2, 1, 1}, {2, 1, 2, 2, 1}, {2, 2, 1, 1, 1}, {1, 1, 2, 2, 0}}
			if tier == "thorough" {
				cs = append(cs, cfg{2, 1, 2, 2, 0}, cfg{3, 1, 3, 2, 1}, cfg{2, 2, 4, 4, 1}, cfg{3, 2, 2, 1, 0})
			}
			for _, c := range cs {
				rs = append(rs, HRun{Pkg: "./shovel", Fn: "ZZ_C02_Faults", Params: []int{c.k, c.canon, c.batch, c.conc, c.single}, MaxPaths: 200000})
			}
			// the no-row-beyond-position clause at every commit of reorg histories
			rs = append(rs, HRun{Pkg: "./shovel", Fn: "ZZ_C03_Reorg", Params: []int{2, 1, 2, 2}}, HRun{Pkg: "./shovel", Fn: "ZZ_C03_Reorg", Params: []int{3, 1, 2, 3}})
			// blocks without hashes (log-only plans): a failed partition cannot pass for a reorg
			rs = append(rs, HRun{Pkg: "./shovel", Fn: "ZZ_C02_FaultsPlain", Params: []int{1, 2, 2, 1}, MaxPaths: 200000, NoReplay: true},
				HRun{Pkg: "./shovel", Fn: "ZZ_C02_FaultsPlain", Params: []int{1, 3, 3, 1}, MaxPaths: 200000, NoReplay: true})
			if tier == "thorough" {
				rs = append(rs, HRun{Pkg: "./shovel", Fn: "ZZ_C02_FaultsPlain", Params: []int{2, 4, 2, 0}, MaxPaths: 200000, NoReplay: true},
					HRun{Pkg: "./shovel", Fn: "ZZ_C02_FaultsPlain", Params: []int{1, 3, 2, 0}, MaxPaths: 200000, NoReplay: true})
			}
			// pruning old positions never moves a pair's position away from its rows
			rs = append(rs, HRun{Pkg: "./shovel", Fn: "ZZ_C04_Prune", Params: []int{2, 2, 1, 1}, Label: "position-survives-pruning"},
				HRun{Pkg: "./shovel", Fn: "ZZ_C04_Prune", Params: []int{2, 1, 2, 2}, Label: "position-survives-pruning"})
			return rs
		},
		Assumptions: append([]string{
			"fault kinds: every model entry point (begin, each exec/query/COPY, commit, each RPC) may return an error, chosen by a solver Boolean per call; single=1 adds the at-most-one constraint, single=0 allows any subset; process death at a point equals an error at that point followed by discarding in-memory state, which is what the retry from the committed state models",
			"ZZ_C02_FaultsPlain repeats the fault runs with a source whose blocks carry no hashes or parents (log-only data plans), where a partially loaded batch cannot be mistaken for a reorg; its counterexamples say WHICH partition's fetch fails, which a native run with real goroutines cannot be forced into, so they are replayed by the engine's concrete mode (same sequential goroutine order)",
			"the retry runs against the same frozen chain so that 'as if the fault had not happened' is an equality of committed states with a fault-free step from the same pre-state",
		}, convAssume...),
		Bounds:  map[string]string{"quick": "(k, canonical prefix, batch, concurrency, single) in {(1,1,2,1,1),(2,1,2,2,1),(2,2,1,1,1),(1,1,2,2,0)} + two reorg runs", "thorough": "4 more configurations incl. multi-fault"},
		Outside: []string{"Postgres honouring its own atomicity", "connection pool behaviour, statement_timeout"},
	})
	register(&PropSpec{
		ID:   "C04",
		Pkgs: []string{"./shovel", "./dig", "./jrpc2"},
		Runs: func(tier string) []HRun {
			rs := []HRun{
				{Pkg: "./shovel", Fn: "ZZ_C03_Reorg", Params: []int{2, 1, 2, 2}},
				{Pkg: "./shovel", Fn: "ZZ_C03_Reorg", Params: []int{3, 1, 2, 3}},
				{Pkg: "./shovel", Fn: "ZZ_C03_Reorg", Params: []int{2, 2, 2, 1}},
			}
			for _, l := range []int{3, 13, 45, 29} {
				rs = append(rs, HRun{Pkg: "./dig", Fn: "ZZ_C11_Log", Params: []int{l, 0, popIdx(l) + 1, 1}})
			}
			// periodic pruning of recorded positions (PruneTask): per pair, nothing else
			pcs := [][]int{{2, 2, 1, 1}, {2, 1, 2, 2}, {1, 2, 2, 1}, {3, 1, 1, 2}}
			if tier == "thorough" {
				pcs = append(pcs, []int{3, 2, 1, 1}, []int{2, 3, 2, 2}, []int{3, 3, 0, 2}, []int{1, 1, 3, 3})
			}
			for _, pc := range pcs {
				rs = append(rs, HRun{Pkg: "./shovel", Fn: "ZZ_C04_Prune", Params: pc, Label: "pruning-keeps-every-pair's-own-newest-positions"})
			}
			// two tasks with different log filters attaching logs to one shared cached block
			for _, n := range []int{2, 3} {
				rs = append(rs, HRun{Pkg: "./jrpc2", Fn: "ZZ_C08_Seq", Params: []int{0, n, 2, 0}, MaxPaths: 200000, Label: "shared-cached-block"})
			}
			return rs
		},
		Assumptions: append([]string{
			"frame condition per statement: three foreign pairs (same source/other integration, other source/same integration with the shared table, same source/other integration sharing the table) with arbitrary cursor rows are present while the task unwinds a reorg and inserts; they must be unchanged afterwards. Interleavings follow from the frame condition: statements that read and write only rows of their own pair commute",
			"pruning (ZZ_C04_Prune): the real PruneTask against the Postgres model, which reads the statement's outer tuple, partition columns, order direction and rn bound from its text; three pairs (same source / same integration name / neither) with 0-3 recorded positions each at arbitrary numbers and n in 1..3: every pair keeps exactly its own newest min(k,n) positions, its position and table rows are unchanged",
			"row stamping (ig_name/src_name of every emitted row equal the task's names) is decided on the real row builder (ZZ_C11_Log)",
			"shared cached block: every order of 2-3 requests by two callers whose filters match different logs of one transaction on the same cached range; each caller must find its own log exactly once (ZZ_C08_Seq kind 0)",
		}, convAssume...),
		Bounds:  map[string]string{"quick": "3 reorg/insert scenarios x 3 foreign pairs; 4 event layouts for the stamp; 4 pruning configurations", "thorough": "8 pruning configurations"},
		Outside: []string{"Postgres row-level isolation itself", "restarts (loadTasks context derivation) - see C20"},
	})
	register(&PropSpec{
		ID:   "C05",
		Pkgs: []string{"./shovel", "./shovel/config"},
		Runs: func(tier string) []HRun {
			var rs []HRun
			for _, p := range [][]int{{1, 1, 1, 0, 2}, {1, 1, 0, 0, 2}, {1, 2, 1, 1, 2}, {1, 2, 1, 0, 2}, {1, 2, 0, 1, 2}, {1, 2, 0, 0, 2}, {0, 2, 2, 1, 2}, {1, 2, 2, 2, 1}} {
				rs = append(rs, HRun{Pkg: "./shovel", Fn: "ZZ_C05_Deps", Params: p})
			}
			mb := []int{1, 2}
			if tier == "thorough" {
				mb = []int{1, 2, 3, 4}
			}
			for _, b := range mb {
				rs = append(rs, HRun{Pkg: "./shovel", Fn: "ZZ_C05_Moving", Params: []int{b}})
			}
			// two steps of one task; between them a referenced integration loses its only position
			for _, b := range []int{1, 2} {
				rs = append(rs, HRun{Pkg: "./shovel", Fn: "ZZ_C05_Lost", Params: []int{b}, Label: "reference-loses-its-progress"})
			}
			for rb := 0; rb <= 4; rb++ {
				for rc := 0; rc <= 4; rc++ {
					for o := 0; o <= 2; o++ {
						rs = append(rs, HRun{Pkg: "./shovel/config", Fn: "ZZ_C05_Refs", Params: []int{rb, rc, o}})
					}
				}
			}
			return rs
		},
		Assumptions: append([]string{
			"the CTE of latestDependency is modelled by hand from its SQL (per referenced integration of the same source its newest cursor row; of those the smallest; plus the number of referenced integrations that have rows); a same-named integration on another source is present and must not count",
			"relative speeds (ZZ_C05_Moving): the dependent's top position is orphaned so its step takes a reorg pass and loops; before every later pass another session commits an arbitrary new position of the referenced integration (forward or back), visible to the open transaction as under READ COMMITTED; the recorded position and every processed block must not lie beyond the referenced position as of the last pass. A change after the last pass (before the commit) is the inherent window of the design and is not asserted",
			"a reference that loses its progress (ZZ_C05_Lost): two steps of ONE task with two referenced integrations that both have a position at the first step; the first reference's only position row is then removed (its own reorg) and the second step must record nothing",
			"config.ValidateFix/ValidateFilterRefs: for two integrations referencing a/x through event inputs or block fields in 25 arrangements x 3 declaration orders (case-split), every referenced integration is listed in Dependencies and the referenced table is taken from the referenced integration; that reference lookups run on the inserting transaction is not covered",
		}, convAssume...),
		Bounds:  map[string]string{"quick": "1-2 referenced integrations with 0..2 cursor rows each (0 = not started), own position present or not; moving dependency with batch 1-2", "thorough": "moving dependency with batch 1-4"},
		Outside: []string{"dependencies declared in nested tuple components", "a referenced integration that moves between the dependent's last read and its commit"},
	})
}

func init() {
	register(&PropSpec{
		ID:   "C14",
		Pkgs: []string{"./shovel"},
		Runs: func(tier string) []HRun {
			rs := []HRun{
				{Pkg: "./shovel", Fn: "ZZ_C14_Fields", Params: []int{-1, -1, -1, 0}, MaxPaths: 100000, Label: "all-pairs-no-event"},
				{Pkg: "./shovel", Fn: "ZZ_C14_Fields", Params: []int{-1, -1, -1, 1}, MaxPaths: 100000, Label: "all-pairs-with-event"},
			}
			n := 28
			// triples: every field with two fixed partners from other membership classes
			partners := [][2]int{{10, 12}, {13, 20}, {0, 18}, {7, 11}}
			if tier == "thorough" {
				partners = append(partners, [2]int{2, 14}, [2]int{5, 22}, [2]int{15, 17}, [2]int{9, 24}, [2]int{3, 13})
			}
			for f := 0; f < n; f++ {
				for _, p := range partners {
					for ev := 0; ev <= 1; ev++ {
						rs = append(rs, HRun{Pkg: "./shovel", Fn: "ZZ_C14_Fields", Params: []int{f, p[0], p[1], ev}})
					}
				}
			}
			return rs
		},
		Assumptions: []string{
			"the node is honest and supplies, per JSON-RPC method, exactly the members the Ethereum JSON-RPC specification lists for it (harness/jrpc2/node.go is that table and the independent oracle); every supplied value is a non-zero solver variable; members a method does not return are left at their zero default",
			"the real pipeline is executed: config.Integration.AddRequiredFields -> dig.New -> Integration.Filter/glf.New -> jrpc2.Client.Get and its fetchers (cut at Client.do) -> dig.Integration.Insert -> COPY rows captured from pgx.CopyFromRows",
			"domain: log_idx/log_addr only for integrations that declare an event; trace_action_idx only together with another trace field; an integration indexes either logs or traces",
			"field names are case-split (all 28 x 28 pairs inside two runs, triples by membership class); values are solver-quantified",
		},
		Bounds:  map[string]string{"quick": "all pairs of the 28 field names with and without an event; 28 x 4 x 2 triples", "thorough": "28 x 9 x 2 triples"},
		Outside: []string{"blocks with several transactions/logs (attachment of several items is C07)", "field sets larger than three"},
	})
}

func init() {
	register(&PropSpec{
		ID:   "C08",
		Pkgs: []string{"./jrpc2"},
		Runs: func(tier string) []HRun {
			var rs []HRun
			ns, mrs := []int{2, 3}, []int{0, 1, 2}
			if tier == "thorough" {
				ns, mrs = []int{2, 3, 4, 5}, []int{0, 1, 2, 3}
			}
			for kind := 0; kind <= 5; kind++ {
				for _, n := range ns {
					for _, m := range mrs {
						for fl := 0; fl <= 1; fl++ {
							if fl == 1 && n > 3 {
								continue
							}
							rs = append(rs, HRun{Pkg: "./jrpc2", Fn: "ZZ_C08_Seq", Params: []int{kind, n, m, fl}, MaxPaths: 200000})
						}
					}
				}
			}
			// concurrent callers on one range under the engine's scheduler
			for kind := 0; kind <= 3; kind++ {
				for _, m := range []int{1, 2} {
					for fl := 0; fl <= 1; fl++ {
						rs = append(rs, HRun{Pkg: "./jrpc2", Fn: "ZZ_C08_Conc", Params: []int{kind, m, 1, 2, fl}, MaxPaths: 400000, Label: "concurrent-callers", NoReplay: true})
					}
				}
				if tier == "thorough" {
					rs = append(rs, HRun{Pkg: "./jrpc2", Fn: "ZZ_C08_Conc", Params: []int{kind, 1, 2, 2, 0}, MaxPaths: 400000, Label: "concurrent-callers", NoReplay: true},
						HRun{Pkg: "./jrpc2", Fn: "ZZ_C08_Conc", Params: []int{kind, 2, 2, 2, 1}, MaxPaths: 400000, Label: "concurrent-callers", NoReplay: true},
						HRun{Pkg: "./jrpc2", Fn: "ZZ_C08_Conc", Params: []int{kind, 1, 1, 3, 0}, MaxPaths: 400000, Label: "concurrent-callers", NoReplay: true},
						HRun{Pkg: "./jrpc2", Fn: "ZZ_C08_Conc", Params: []int{kind, 2, 1, 3, 0}, MaxPaths: 400000, Label: "concurrent-callers", NoReplay: true})
				}
			}
			// two concurrent Latest callers and the poller, scheduled
			for _, m := range []int{1, 2} {
				for pf := 0; pf <= 1; pf++ {
					rs = append(rs, HRun{Pkg: "./jrpc2", Fn: "ZZ_C08_HeadConc", Params: []int{m, 0, pf}, MaxPaths: 400000, Label: "concurrent-head", NoReplay: true})
				}
			}
			if tier == "thorough" {
				rs = append(rs, HRun{Pkg: "./jrpc2", Fn: "ZZ_C08_HeadConc", Params: []int{1, 1, 0}, MaxPaths: 3000000, Label: "concurrent-head", NoReplay: true},
					HRun{Pkg: "./jrpc2", Fn: "ZZ_C08_HeadConc", Params: []int{1, 1, 1}, MaxPaths: 3000000, Label: "concurrent-head", NoReplay: true})
			}
			rs = append(rs, HRun{Pkg: "./jrpc2", Fn: "ZZ_C08_Prune", Params: []int{7}}, HRun{Pkg: "./jrpc2", Fn: "ZZ_C08_Prune", Params: []int{6}})
			for _, m := range mrs {
				for _, n := range ns {
					rs = append(rs, HRun{Pkg: "./jrpc2", Fn: "ZZ_C08_Head", Params: []int{n + 1, m}, MaxPaths: 200000})
				}
			}
			return rs
		},
		Assumptions: []string{
			"sequential half (ZZ_C08_Seq): every order of n requests over two ranges and two callers is enumerated (case-split), node failures are a solver Boolean per node call",
			"concurrent half (ZZ_C08_Conc): 2 (thorough: 3) callers request one range concurrently through the real Client.Get/cache.get under the engine's scheduler (every mutex operation, goroutine start/end and channel operation is a scheduling point; the next thread is an enumerated decision bounded by a preemption budget of 1, thorough 2); four data plans, maxreads 1 and 2, with and without symbolic node failures; each caller must get the uncached data with both logs once, errors only from this run's node failures, and the number of range fetches must be at least ceil(served reads / maxreads); deadlock and goroutine panics are reported",
			"the chain is unchanging and honest (harness/jrpc2/node.go): one block per range with one transaction carrying two logs that match different callers' filters; eth_getLogs returns the logs matching the caller's filter",
			"concurrent head (ZZ_C08_HeadConc): two Latest callers with symbolic floors and the poller (a second announcement or an error) run concurrently under the scheduler after one announcement; every received head must be one of the announced pairs or the node's own answer; threads switch only at blocking points in the quick tier (preemption budget 0), one preemption in the thorough tier",
			"head cache: announcements (update), poller errors and Latest calls in every order of length n with symbolic numbers/hashes/floors; the poller goroutine itself is not scheduled (its calls are the announcements)",
		},
		Bounds:  map[string]string{"quick": "6 plans (incl. header-only vs full-block callers and a logs caller vs a receipts caller on the same cached headers) x n in {2,3} requests x maxreads in {0,1,2} x with/without node failures; prune with 7 ranges; head ops n+1 in {3,4}", "thorough": "n up to 5, maxreads up to 3; concurrent: 3 callers with 1 preemption, 2 callers with 2"},
		Outside: []string{"concurrent mixes over different ranges or with more than 3 callers, more than 2 preemptions", "preemption inside a critical section at a point that is not a synchronisation operation (data races on such accesses are C18's subject)", "websocket/HTTP poller I/O"},
	})
}

func init() {
	register(&PropSpec{
		ID:     "C19",
		Pkgs:   []string{"./shovel/web", "./cmd/shovel"},
		Static: routeCheck,
		Runs: func(tier string) []HRun {
			var rs []HRun
			for cookie := 0; cookie <= 3; cookie++ {
				rs = append(rs, HRun{Pkg: "./shovel/web", Fn: "ZZ_C19_Authn", Params: []int{cookie}})
			}
			// real peer addresses (no loopback oracle): 16 loopback / link-local / private / named / malformed addresses
			for i := 0; i < 16; i++ {
				rs = append(rs, HRun{Pkg: "./shovel/web", Fn: "ZZ_C19_Addr", Params: []int{i}, Flags: []string{"real-net"}})
			}
			pl, sl := []int{0, 1, 4}, []int{0, 1, 4, 5, 16}
			if tier == "thorough" {
				pl, sl = []int{0, 1, 2, 4, 8, 16}, []int{0, 1, 2, 4, 5, 8, 9, 15, 16, 17}
			}
			for _, p := range pl {
				for _, s := range sl {
					rs = append(rs, HRun{Pkg: "./shovel/web", Fn: "ZZ_C19_Login", Params: []int{p, s}})
				}
			}
			return rs
		},
		Assumptions: []string{
			"cut points (engine redirects, same textual cuts natively): session.Get/Set (Get succeeds iff the cookie state is 'minted by this process'), http.Redirect/Error, Request.ParseForm/FormValue, net.SplitHostPort (malformed = solver Boolean), net.ParseIP(host).IsLoopback (oracle Boolean), Handler.template, age.GenerateX25519Identity",
			"both switches, the loopback oracle, malformed address, form parse failure are solver Booleans; the HTTP method is a symbolic string of 0,3..7 bytes (length case-split, bytes solver variables: every method name up to OPTIONS/CONNECT is covered); the cookie state is case-split; configured and supplied passwords are symbolic strings of case-split length; the generated password is 8 arbitrary random bytes rendered in hex",
			"peer addresses (ZZ_C19_Addr, flag real-net): 16 concrete remote addresses (127.0.0.1, 127.9.8.7, ::1, IPv4-mapped loopback, private, public, 169.254/16, fe80:: with and without zone, unspecified, a host name, no port, empty) go through the real net.SplitHostPort / net.ParseIP / net.IP predicates, which the engine evaluates natively on the concrete strings; both switches stay solver Booleans; served without a session iff disabled, or loopback authentication not enforced and the peer is a loopback address",
			"route table: read structurally from the SSA of cmd/shovel main (not a solver query): the five protected endpoints and any /save-* or /add-* path must be registered with a value produced by Authn",
		},
		Bounds:  map[string]string{"quick": "4 cookie states x methods of length 0,3..7 (symbolic bytes); password lengths {0(generated),1,4} x supplied lengths {0,1,4,5,16}", "thorough": "6 x 10 length pairs"},
		Outside: []string{"age/session cryptography and cookies surviving a restart", "net.ParseIP itself and peer addresses outside the 16 listed"},
	})
}

func init() {
	register(&PropSpec{
		ID:   "C20",
		Pkgs: []string{"./shovel"},
		Runs: func(tier string) []HRun {
			var rs []HRun
			mixes := [][2]int{{1, 0}, {0, 1}, {1, 1}, {2, 0}, {0, 2}}
			if tier == "thorough" {
				mixes = append(mixes, [2]int{2, 1}, [2]int{1, 2}, [2]int{2, 2})
			}
			for _, m := range mixes {
				for sm := 0; sm <= 2; sm++ {
					rs = append(rs, HRun{Pkg: "./shovel", Fn: "ZZ_C20_Load", Params: []int{m[0], m[1], sm}, MaxPaths: 400000})
				}
			}
			// names containing separators: distinct (source, integration) pairs that agree once joined with '-'
			rs = append(rs, HRun{Pkg: "./shovel", Fn: "ZZ_C20_Load", Params: []int{2, 0, 11}, MaxPaths: 400000, Label: "separator-names"},
				HRun{Pkg: "./shovel", Fn: "ZZ_C20_Load", Params: []int{1, 1, 10}, MaxPaths: 400000, Label: "separator-names"})
			// schedule half: Run / Restart / runTask under the engine's scheduler
			rs = append(rs, HRun{Pkg: "./shovel", Fn: "ZZ_C20_Restart", Params: []int{0, 1, 60}, MaxPaths: 400000, DeepenParam: 2, DeepenStep: 15})
			if tier == "thorough" {
				rs = append(rs, HRun{Pkg: "./shovel", Fn: "ZZ_C20_Restart", Params: []int{1, 1, 45}, MaxPaths: 400000},
					HRun{Pkg: "./shovel", Fn: "ZZ_C20_Restart", Params: []int{0, 2, 60}, MaxPaths: 400000})
			}
			// restart sequences: idle manager, failed restart then a good one, two restarts in a row
			// (the bound counts scheduling points after the frozen set-up phase; if every
			// path is cut at it the run is repeated with the bound raised by 15, twice at most)
			rs = append(rs, HRun{Pkg: "./shovel", Fn: "ZZ_C20_Sequence", Params: []int{0, 0, 70, 2}, MaxPaths: 400000, DeepenParam: 2, DeepenStep: 15},
				HRun{Pkg: "./shovel", Fn: "ZZ_C20_Sequence", Params: []int{1, 0, 55, 1}, MaxPaths: 400000, DeepenParam: 2, DeepenStep: 15},
				HRun{Pkg: "./shovel", Fn: "ZZ_C20_Sequence", Params: []int{2, 0, 55, 1}, MaxPaths: 400000, DeepenParam: 2, DeepenStep: 15})
			if tier == "thorough" {
				rs = append(rs, HRun{Pkg: "./shovel", Fn: "ZZ_C20_Sequence", Params: []int{0, 0, 80, 4}, MaxPaths: 400000, DeepenParam: 2, DeepenStep: 15},
					HRun{Pkg: "./shovel", Fn: "ZZ_C20_Sequence", Params: []int{1, 0, 65, 2}, MaxPaths: 400000, DeepenParam: 2, DeepenStep: 15},
					HRun{Pkg: "./shovel", Fn: "ZZ_C20_Sequence", Params: []int{2, 0, 65, 2}, MaxPaths: 400000, DeepenParam: 2, DeepenStep: 15})
			}
			return rs
		},
		Assumptions: []string{
			"configuration half (ZZ_C20_Load): task list = enabled integrations x referenced sources, file wins a name clash, unknown source is a startup error, each task carries its source's settings and the reference's start/stop, context names equal the task's names",
			"schedule half (ZZ_C20_Restart): the real Manager.Run/Restart/runTask with real tasks (loadTasks, Converge against the Postgres model and the honest node) run under the engine's scheduler: goroutines become engine threads, every synchronisation operation (mutex, channel send/receive/close, select, WaitGroup, sleep, goroutine start/end) is a scheduling point, the choice of the next runnable thread is an enumerated decision bounded by a preemption budget (0 quick, 1 thorough) and a bound on scheduling points per path (paths reaching it are cut, not counted as held); one restart is requested while the first generation runs; after Restart returns no task of the previous generation may issue a source call, the manager holds new tasks, no deadlock, no goroutine panic. Overlapping restarts and a restart during the first loadTasks are not explored; the background head pollers are cut",
			"restart sequences (ZZ_C20_Sequence), same scheduler: (0) the first generation has no enabled integration and its Run has returned, an integration is stored and a restart requested; (1) a stored integration references an unknown source, Restart reports the error, the source is added and a second restart requested; (2) two restarts in a row while tasks run. In (1) and (2) the set-up (start-up and first restart) runs along ONE representative schedule (zzvrf.SchedFreeze: no enumerated decisions, points not counted) and enumeration starts at the last restart; a run in which every path is cut at the scheduling-point bound is repeated with the bound raised by 15 (twice at most) instead of being reported vacuous. The last restart must not panic, must load one task per pair, and whenever the harness looks afterwards (1-2 times, after sleeping) the new generation's Run must still hold the manager's lock (its tasks have no stop, so no runner may exit)",
			"the two database readers config.Integrations / config.Sources are cut (engine redirect, native rename) and return the symbolic lists; pgp.Exec of NewTask, jrpc2.MustURL and gzhttp.Transport are cut",
			"integration names over {a,b}, enabled flags, 1-2 source references over {s1,s2,missing}, source placement (file/db/clash) are case-split; batch size, start, stop, chain id are solver variables; an integration does not list the same source twice; names are distinct within the file and within the table",
		},
		Bounds:  map[string]string{"quick": "(file, db) integration counts in {(1,0),(0,1),(1,1),(2,0),(0,2)} x 3 source placements", "thorough": "adds (2,1),(1,2),(2,2)"},
		Outside: []string{"schedules beyond the preemption budget and the scheduling-point bound", "two overlapping Restart calls", "compiled integrations"},
	})
}

func init() {
	register(&PropSpec{
		ID:   "C16",
		Pkgs: []string{"./shovel/config"},
		Runs: func(tier string) []HRun {
			var rs []HRun
			for a := 0; a <= 4; a++ {
				rs = append(rs, HRun{Pkg: "./shovel/config", Fn: "ZZ_C16_Schema", Params: []int{a, -1, 0}})
				for b := 0; b <= 4; b++ {
					for sh := 0; sh <= 1; sh++ {
						rs = append(rs, HRun{Pkg: "./shovel/config", Fn: "ZZ_C16_Schema", Params: []int{a, b, sh}, MaxPaths: 100000})
					}
				}
				for w := 0; w <= 2; w++ {
					rs = append(rs, HRun{Pkg: "./shovel/config", Fn: "ZZ_C16_Missing", Params: []int{a, w}})
				}
				if a == 0 {
					// a later one of several selected inputs / block fields lacks its column (3-5); an identity field declared under a column name the table lacks (6-11)
					for w := 3; w <= 11; w++ {
						rs = append(rs, HRun{Pkg: "./shovel/config", Fn: "ZZ_C16_Missing", Params: []int{0, w}})
					}
				}
			}
			return rs
		},
		Assumptions: []string{
			"integration shapes: transaction fields, log with an indexed selected input, log with a non-indexed selected array input, trace fields, log whose only selected value is a component of a tuple array (5 shapes, all ordered pairs, shared table or not); user-declared identity column (none / block field and column / table column only), column order, declaration order and how many columns of each table already exist in the database (none / half / all / exactly the first integration's own definition) are case-split (enumerated, not solver-quantified)",
			"the database's answer to information_schema.columns is cut at pgx.CollectRows inside wpg.Diff; DDL/alter statements are read back from their text; 'create unique index if not exists u_<table>' semantics: the first statement executed for a table wins",
			"key projection: the key must contain the identity columns that tell the integration's rows apart (ig_name, src_name, block_num, tx_idx + log_idx / abi_idx / trace_action_idx by shape) and only columns the integration writes (a NULL key column never collides); the node reports distinct (block, tx_idx, log_idx) per log",
		},
		Bounds:  map[string]string{"quick": "5 shapes alone + 25 ordered pairs x {separate, shared table} + 15 rejection cases", "thorough": "same"},
		Outside: []string{"user-supplied unique lists", "Postgres' own DDL semantics"},
	})
}

func init() {
	register(&PropSpec{
		ID:   "C15",
		Pkgs: []string{"./shovel", "./shovel/web"},
		Runs: func(tier string) []HRun {
			var rs []HRun
			for pos := 0; pos < 22; pos++ {
				for path := 0; path <= 1; path++ {
					rs = append(rs, HRun{Pkg: "./shovel", Fn: "ZZ_C15_Inject", Params: []int{pos, path, 0}})
					if pos <= 4 || pos == 11 || pos == 12 || pos == 19 {
						// positions that reach the schema statements, which are built for disabled integrations too
						rs = append(rs, HRun{Pkg: "./shovel", Fn: "ZZ_C15_Inject", Params: []int{pos, path, 1}})
					}
				}
			}
			// the hostile string sits in the SECOND of two integrations sharing one table
			for _, pos := range []int{2, 3, 11, 12, 19} {
				rs = append(rs, HRun{Pkg: "./shovel", Fn: "ZZ_C15_Inject", Params: []int{pos, 0, 2}, Label: "shared-table"})
			}
			rs = append(rs, HRun{Pkg: "./shovel", Fn: "ZZ_C15_Chain"})
			// the dashboard's /save-source: a source name that fails the check is not stored
			rs = append(rs, HRun{Pkg: "./shovel/web", Fn: "ZZ_C15_SaveSource"})
			return rs
		},
		Assumptions: []string{
			"dashboard source names (ZZ_C15_SaveSource): the real /save-source handler with a name ending in a solver byte; the statement it issues on the pool is recorded (cut: pool Exec); a name is stored only if the byte is in [A-Za-z0-9_-] (stored source names are later spliced into application_name and the notification channel without another check)",
			"non-interference formulation: one symbolic byte is appended to one configuration string position (22 positions of a skeleton configuration that exercises every SQL text builder: DDL incl. unique/index statements, alter table, reorg delete, reference lookup incl. a nested tuple component, notification, application_name); whenever validation accepts and a recorded SQL text is a function of that byte, z3 must prove the byte is in [A-Za-z0-9_-]; the positions that reach the schema statements (names, column name/type, unique/index entries) are also run with the integration disabled (enabled:false), whose table is still created and migrated",
			"two validation paths: file (config.ValidateFix) and dashboard (config.CheckUserInput on the submitted integration only, then task construction without ValidateFix, as web.SaveIntegration + loadTasks do); HTTP/JSON plumbing of the dashboard is not executed",
			"symbolic configuration bytes are ASCII (< 0x80): wstrings.Safe's unicode classes are modelled exactly for ASCII only; non-ASCII letters/digits (which Safe accepts) are outside the claim",
			"identifiers handed to pgx.CopyFrom are quoted by pgx and count as parameters; chain-derived bytes (address, topic, data) are symbolic in ZZ_C15_Chain and must not influence any SQL text",
		},
		Bounds:  map[string]string{"quick": "22 positions x 2 paths, one appended byte each; 1 chain-data run", "thorough": "same"},
		Outside: []string{"non-ASCII runes", "positions not in the skeleton (e.g. compiled integrations)", "prepended or inner hostile bytes"},
	})
}

func init() {
	register(&PropSpec{
		ID:   "C18",
		Pkgs: []string{"./shovel", "./jrpc2", "./dig"},
		Runs: func(tier string) []HRun {
			var rs []HRun
			loads := [][2]int{{2, 2}, {4, 4}, {3, 2}, {4, 2}}
			if tier == "thorough" {
				loads = append(loads, [2]int{8, 8}, [2]int{6, 3}, [2]int{5, 4})
			}
			for _, l := range loads {
				rs = append(rs, HRun{Pkg: "./shovel", Fn: "ZZ_C18_Load", Params: []int{l[0], l[1]}})
			}
			for a := 0; a <= 4; a++ {
				for b := a; b <= 4; b++ {
					rs = append(rs, HRun{Pkg: "./jrpc2", Fn: "ZZ_C18_Shared", Params: []int{a, b}})
				}
			}
			// two partitions run the real dig.Integration.Insert concurrently (own instances, shared connection mutex)
			for k := 0; k <= 2; k++ {
				rs = append(rs, HRun{Pkg: "./dig", Fn: "ZZ_C18_DigInsert", Params: []int{k}})
			}
			// the same with node failures: the cache's error paths run concurrently with the other task
			fp := [][2]int{{4, 4}, {0, 0}, {0, 2}, {3, 3}}
			if tier == "thorough" {
				fp = nil
				for a := 0; a <= 4; a++ {
					for b := a; b <= 4; b++ {
						fp = append(fp, [2]int{a, b})
					}
				}
			}
			for _, ab := range fp {
				rs = append(rs, HRun{Pkg: "./jrpc2", Fn: "ZZ_C18_SharedFail", Params: []int{ab[0], ab[1]}, MaxPaths: 200000})
			}
			rs = append(rs, HRun{Pkg: "./jrpc2", Fn: "ZZ_C18_Head", Params: []int{0}}, HRun{Pkg: "./jrpc2", Fn: "ZZ_C18_Head", Params: []int{1}})
			// two tasks consume one shared block whose transaction hash memo is empty / filled
			rs = append(rs, HRun{Pkg: "./jrpc2", Fn: "ZZ_C18_TxHash", Params: []int{1}}, HRun{Pkg: "./jrpc2", Fn: "ZZ_C18_TxHash", Params: []int{0}})
			// every scenario also with the goroutines recorded in reverse spawn order
			n := len(rs)
			for i := 0; i < n; i++ {
				r := rs[i]
				r.GoOrder, r.Label = 1, "reverse-spawn-order"
				rs = append(rs, r)
			}
			return rs
		},
		Assumptions: []string{
			"reduced form: goroutine bodies (errgroup closures) are executed sequentially by the engine while every memory access, lock acquire/release, fork, join, WaitGroup signal/wait is logged with its thread; for every pair of conflicting accesses of different threads z3 decides, over one integer order variable per event, whether some schedule consistent with program order, fork/join, lock mutual exclusion and read consistency (every other read sees the write it saw on the recorded path) leaves the two accesses unordered",
			"control flow and addresses are those of the recorded symbolic paths; races that only appear on paths where a read observes another write are not found (conservative: never invents a race); byte buffers are one location each; a map is one location (lookup, len and iteration read it, insertion and deletion write it); atomics conflict only with plain accesses",
			"scenarios: Task.load/insert partition goroutines inside one Converge step (batch x concurrency); two tasks with any two of five data plans fetching one cached range concurrently and consuming the blocks as Task.load and dig.Insert do (copy into an own slice, read fields), also with node failures as solver Booleans so that the cache's error paths run concurrently with the other task (ZZ_C18_SharedFail); two partitions running the real dig.Integration.Insert concurrently on their own Integration instances with uint256 / uint64 / byte-string filters (ZZ_C18_DigInsert: package-level or otherwise shared scratch state in the row builder); two tasks and the poller using the head cache concurrently, after a poller error or an announcement",
			"a reported race is replayed by running the same harness natively with real goroutines under the Go race detector (go test -race); the race detector is used only as the replay oracle, never to decide",
			"background head polling I/O, pgx, net/http internals are outside",
		},
		Bounds:  map[string]string{"quick": "load: (batch, conc) in {(2,2),(4,4),(3,2),(4,2)}; shared cache: 15 unordered plan pairs, 4 of them also with node failures; head cache: 2 modes", "thorough": "adds (8,8),(6,3),(5,4); node failures for all 15 plan pairs"},
		Outside: []string{"schedules that change control flow", "more than two tasks on one client", "reorgs in flight"},
	})
}
