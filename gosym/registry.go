package main

// Registered property checks: which harness instances (shapes) run per tier.

func rangeInts(lo, hi int) []int {
	var out []int
	for i := lo; i <= hi; i++ {
		out = append(out, i)
	}
	return out
}

func init() {
	register(&PropSpec{
		ID:   "C17",
		Pkgs: []string{"./eth", "./bint"},
		Runs: func(tier string) []HRun {
			var rs []HRun
			maxTok, maxBytesTok, rt := 22, 16, []int{0, 1, 4, 8}
			prior := [][2]int{{0, 0}, {2, 2}, {5, 8}, {9, 16}}
			if tier == "thorough" {
				maxTok, maxBytesTok, rt = 40, 70, []int{0, 1, 2, 4, 8, 20, 32}
				prior = [][2]int{{0, 0}, {1, 1}, {2, 2}, {5, 8}, {9, 16}, {33, 40}, {0, 40}}
			}
			for n := 0; n <= maxTok; n++ {
				rs = append(rs, HRun{Pkg: "./eth", Fn: "ZZ_C17_Uint64", Params: []int{n}})
			}
			for n := 0; n <= 8; n++ {
				rs = append(rs, HRun{Pkg: "./eth", Fn: "ZZ_C17_Byte", Params: []int{n}})
			}
			for n := 0; n <= maxBytesTok; n++ {
				for _, p := range prior {
					if tier == "quick" && n > 10 && p[1] != 8 {
						continue
					}
					rs = append(rs, HRun{Pkg: "./eth", Fn: "ZZ_C17_Bytes", Params: []int{n, p[0], p[1]}})
				}
			}
			for _, m := range []int{0, 1, 5, 9, 33} {
				for _, p := range prior {
					rs = append(rs, HRun{Pkg: "./eth", Fn: "ZZ_C17_Write", Params: []int{m, p[0], p[1]}})
				}
			}
			for _, n := range rt {
				rs = append(rs, HRun{Pkg: "./eth", Fn: "ZZ_C17_HexRoundTrip", Params: []int{n}, Unwind: 200})
			}
			for n := 0; n <= 7; n++ {
				rs = append(rs, HRun{Pkg: "./eth", Fn: "ZZ_C17_DecodeHexTotal", Params: []int{n}})
			}
			for w := 1; w <= 32; w++ {
				if tier == "quick" && w > 9 && w != 32 {
					continue
				}
				rs = append(rs, HRun{Pkg: "./bint", Fn: "ZZ_C17_RoundTrip", Params: []int{w}})
			}
			rs = append(rs, HRun{Pkg: "./bint", Fn: "ZZ_C17_EncodeNil"})
			return rs
		},
		Assumptions: []string{
			"fmt.Sprintf(\"0x%x\") in Bytes.MarshalJSON is modelled (lower-case hex of each byte); fmt itself is trusted",
			"encoding/hex is executed from its own SSA (not stubbed)",
			"allocator capacity rounding of append is not modelled exactly (new capacity = max(needed, 2*old) rounded to 8)",
		},
		Bounds: map[string]string{
			"quick":    "quantity tokens of every length 0..22 bytes with all bytes symbolic (covers every 64-bit quantity in every spelling, plus 17/18-digit over-long ones); byte-string tokens 0..16 bytes into destinations with prior (len,cap) in {(0,0),(2,2),(5,8),(9,16)} and symbolic prior content; Write of 0,1,5,9,33 bytes; hex round trip of 0,1,4,8 bytes; DecodeHex on every string of 0..7 bytes; bint pad widths 1..9 and 32 with n a free 64-bit value",
			"thorough": "quantity tokens 0..40 bytes; byte-string tokens 0..70 bytes (32-byte hashes) into 7 prior shapes; hex round trip up to 32 bytes; bint pad widths 1..32",
		},
		Outside: []string{"byte strings longer than the stated bound (the decode loop is uniform in the length; multi-KiB inputs are not explored)", "goccy/go-json's tokenisation (tokens are handed to UnmarshalJSON as arbitrary byte strings)"},
	})
}
