package jrpc2

// Native demonstration for the C08 concurrent over-serve (fixed by the
// "fix: count a cache read before releasing the cache lock" commit).
// Run against a tree without the fix:
//   go test -vet=off -count=1 -run TestZZConcOverServe -overlay <overlay mapping this file into jrpc2/> ./jrpc2/
import (
	"context"
	"sync"
	"sync/atomic"
	"testing"

	"github.com/indexsupply/shovel/eth"
)

const zzN = 8

func TestZZConcOverServe(t *testing.T) {
	over := 0
	for iter := 0; iter < 20000; iter++ {
		var c cache
		c.maxreads = 1
		var fetches int64
		g := func(ctx context.Context, url string, start, limit uint64) ([]eth.Block, error) {
			atomic.AddInt64(&fetches, 1)
			return []eth.Block{{}}, nil
		}
		var wg sync.WaitGroup
		start := make(chan struct{})
		for i := 0; i < zzN; i++ {
			wg.Add(1)
			go func() {
				defer wg.Done()
				<-start
				c.get(false, context.Background(), "", 1, 1, g)
			}()
		}
		close(start)
		wg.Wait()
		if fetches < zzN {
			over++
		}
	}
	if over > 0 {
		t.Fatalf("maxreads=1: %d of 20000 rounds served more than one read from one fetch", over)
	}
}
