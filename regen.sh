#!/bin/sh
# Re-run every registered check (quick tier) on the unchanged tree and validate manifest + evidence.
cd /verif || exit 2
if [ -n "$(git -C /repo status --porcelain)" ]; then echo "/repo not clean"; exit 2; fi
rc=0
for p in C01 C02 C03 C04 C05 C06 C07 C08 C09 C10 C11 C12 C13 C14 C15 C16 C17 C18 C19 C20; do
  s=$(date +%s); out=$(./check $p ${1:-quick} 2>&1); e=$?; t=$(( $(date +%s) - s ))
  echo "$p exit=$e ${t}s $(echo "$out" | tail -1 | cut -c1-140)"
  [ $e -ne 0 ] && { rc=1; echo "$out" | grep -E "VIOLATION|INCONCL" | head -5; }
done
python3-vt - <<'PY'
import json,jsonschema,glob
jsonschema.validate(json.load(open('/verif/MANIFEST.json')), json.load(open('/root/.vp/MANIFEST.schema.json')))
for f in glob.glob('/verif/evidence/*.json'):
    jsonschema.validate(json.load(open(f)), json.load(open('/root/.vp/EVIDENCE.schema.json')))
print('manifest+evidence valid')
PY
exit $rc
