#!/usr/bin/env python3
"""Confirm a seeded change and run the checks against it.
usage: seedtest.py <seed-id> <worktree> [check ids...]
 1. collects patch.diff + demo from the agent's worktree into /verif/seeded/<seed-id>/
 2. confirms in a scratch worktree: builds, baseline tests pass, demo fails with / passes without
 3. applies the patch to /repo, runs the given checks (quick), restores /repo
"""
import json, os, subprocess, sys, glob, shutil, time
ENV = dict(os.environ, GOFLAGS="-mod=mod", GOPROXY="off", GOSUMDB="off", GOTOOLCHAIN="local", VERIF_EVIDENCE_DIR="/verif/out/seed-evidence")
BASE = "./bint ./eth ./jrpc2 ./shovel/config ./shovel/glf ./wctx ./wos ./wslog".split()

def run(cmd, cwd, timeout=1800):
    p = subprocess.run(cmd, cwd=cwd, env=ENV, stdout=subprocess.PIPE, stderr=subprocess.STDOUT, text=True, timeout=timeout)
    return p.returncode, p.stdout

def recheck():
    sid = sys.argv[2]
    checks = sys.argv[3:]
    out = f"/verif/seeded/{sid}"
    meta = json.load(open(f"{out}/meta.json"))
    st = subprocess.run(["git", "-C", "/repo", "status", "--porcelain"], stdout=subprocess.PIPE, text=True).stdout
    if st.strip():
        print("refusing: /repo not clean"); sys.exit(2)
    subprocess.check_call(["git", "-C", "/repo", "apply", f"{out}/patch.diff"])
    meta["checks"] = {}
    try:
        for c in checks:
            t0 = time.time()
            rc, o = run(["/verif/check", c, "quick"], "/verif", timeout=3600)
            viol = [l for l in o.splitlines() if l.startswith("VIOLATION")]
            inc = [l for l in o.splitlines() if l.startswith("INCONCLUSIVE")]
            meta["checks"][c] = {"exit": rc, "violations": len(viol), "inconclusive": len(inc), "first": (viol + inc + [""])[0][:300], "wall_s": round(time.time() - t0, 1)}
    finally:
        subprocess.check_call(["git", "-C", "/repo", "checkout", "--", "."])
    json.dump(meta, open(f"{out}/meta.json", "w"), indent=1)
    print(sid, {k: (v["exit"], v["violations"], v["inconclusive"]) for k, v in meta["checks"].items()})

def main():
    if sys.argv[1] == "--recheck":
        return recheck()
    sid, wt = sys.argv[1], sys.argv[2]
    checks = sys.argv[3:]
    out = f"/verif/seeded/{sid}"
    os.makedirs(out, exist_ok=True)
    rc, diff = run(["git", "diff"], wt)
    open(f"{out}/patch.diff", "w").write(diff)
    demos = [f for f in subprocess.run(["git", "ls-files", "--others", "--exclude-standard"], cwd=wt, stdout=subprocess.PIPE, text=True).stdout.split() if f.endswith("_test.go")]
    for d in demos:
        os.makedirs(os.path.dirname(f"{out}/demo/{d}"), exist_ok=True)
        shutil.copy(f"{wt}/{d}", f"{out}/demo/{d}")
    if os.path.exists(f"{wt}/SEED.md"):
        shutil.copy(f"{wt}/SEED.md", f"{out}/SEED.md")
    meta = {"id": sid, "patch_files": [l[6:] for l in diff.splitlines() if l.startswith("+++ b/")], "demo": demos, "ran": []}
    # 2. confirm in a scratch worktree
    cw = f"/tmp/confirm-{sid}"
    subprocess.run(["git", "-C", "/repo", "worktree", "remove", "--force", cw], stdout=subprocess.DEVNULL, stderr=subprocess.DEVNULL)
    subprocess.check_call(["git", "-C", "/repo", "worktree", "add", "-q", "--detach", cw, "HEAD"])
    try:
        def demo_run(tag):
            res = {}
            for d in demos:
                pkgdir = os.path.dirname(d)
                shutil.copy(f"{out}/demo/{d}", f"{cw}/{d}")
                others = [f for f in glob.glob(f"{cw}/{pkgdir}/*_test.go") if not f.endswith(os.path.basename(d))]
                if pkgdir not in ("dig", "shovel", "wpg", "shovel/web", "cmd/shovel"):
                    others = []  # these packages' own tests run offline and may hold helpers
                ov = {"Replace": {f: "" for f in others}}
                ovf = f"{cw}/.ov.json"
                json.dump(ov, open(ovf, "w"))
                race = ["-race"] if os.environ.get("SEED_RACE") else []  # demonstrations of data races need the race detector
                rc, o = run(["go", "test", "-vet=off", "-count=1"] + race + ["-overlay", ovf, "-run", "TestZZDemo|TestSeed", "./" + pkgdir], cw)
                res[d] = rc
                meta["ran"].append({"cmd": f"go test -run TestZZDemo ./{pkgdir} ({tag})", "exit": rc, "tail": o[-400:]})
                os.remove(f"{cw}/{d}")
            return res
        without = demo_run("without change")
        rc, o = run(["git", "apply", f"{out}/patch.diff"], cw)
        meta["applies"] = rc == 0
        rc, o = run(["go", "build", "./..."], cw)
        meta["builds"] = rc == 0
        rc, o = run(["go", "test", "-vet=off", "-count=1"] + BASE, cw)
        meta["baseline_passes"] = rc == 0
        if rc != 0:
            meta["baseline_tail"] = o[-600:]
        withc = demo_run("with change")
        meta["demo_fails_with_change"] = all(v != 0 for v in withc.values()) and len(withc) > 0
        meta["demo_passes_without_change"] = all(v == 0 for v in without.values()) and len(without) > 0
    finally:
        subprocess.run(["git", "-C", "/repo", "worktree", "remove", "--force", cw])
    meta["confirmed"] = bool(meta.get("applies") and meta.get("builds") and meta.get("baseline_passes") and meta.get("demo_fails_with_change") and meta.get("demo_passes_without_change"))
    # 3. run checks against the patched /repo
    meta["checks"] = {}
    if meta["confirmed"] and checks:
        st = subprocess.run(["git", "-C", "/repo", "status", "--porcelain"], stdout=subprocess.PIPE, text=True).stdout
        if st.strip():
            print("refusing: /repo not clean"); sys.exit(2)
        subprocess.check_call(["git", "-C", "/repo", "apply", f"{out}/patch.diff"])
        try:
            for c in checks:
                t0 = time.time()
                rc, o = run(["/verif/check", c, "quick"], "/verif", timeout=3600)
                viol = [l for l in o.splitlines() if l.startswith("VIOLATION")]
                inc = [l for l in o.splitlines() if l.startswith("INCONCLUSIVE")]
                meta["checks"][c] = {"exit": rc, "violations": len(viol), "inconclusive": len(inc), "first": (viol + inc + [""])[0][:300], "wall_s": round(time.time() - t0, 1)}
        finally:
            subprocess.check_call(["git", "-C", "/repo", "checkout", "--", "."])
    json.dump(meta, open(f"{out}/meta.json", "w"), indent=1)
    print(json.dumps({k: meta[k] for k in ("id", "confirmed", "applies", "builds", "baseline_passes", "demo_fails_with_change", "demo_passes_without_change", "checks") if k in meta}, indent=1))

main()
